"""E5 -- abstract interpreter of the tokenizer (tokens.py driver + registered rules).

Input strings are abstracted to category strings.  A state carries a window of category
sets around the cursor, the cursor offset inside the current driver round (saturating), and
facts about token-valued locals.  Guards split states per inspected slot, so the result is
a dispatch table over all category windows:  which rule fires, what it consumes, what it
emits, where the position of the token comes from, and whether the round makes progress.
Nothing is executed; only the ASTs of /repo/TexSoup/{tokens,category,utils}.py are read.
"""
import ast
import collections

from .model import AnalysisError, Unfoldable, Folder, FEnum, FEnumMember, ClassRef, FuncRef, norm
from .interp import Interp, Raised, Unsupported, NEXT, BREAK, CONTINUE, BROKE, strip_doc

EOF, BOF = 'EOF', 'BOF'
CAP = 3            # cursor offsets 0..CAP-1 exact, then 'M' (>= CAP)
M = 'M'
MAXK = 16
LM = 2             # left margin of the window: slots -LM..-1 hold the characters before the cursor


def sat_add(a, b):
    if a == M or b == M:
        return M
    s = a + b
    return s if s < CAP else M


# C12: "the delimiter that is part of a sizing command (\\left[, \\right), \\big( ...)" -- the literals whose recognition
# right after a backslash is tracked
SIZING_LITERALS = [p_ + d_ for p_ in ('left', 'right', 'big', 'Big', 'bigg', 'Bigg') for d_ in '()[]']


def table_scan_helper(repo, module, call):
    """`helper(ch)` where helper returns  next((k for k, vals in CATEGORY_CODES.items() if <p> in vals), <CC member>):
    the first-match table scan with a constant fallback -> (helper FuncDef, fallback member) or None"""
    if not (isinstance(call, ast.Call) and isinstance(call.func, ast.Name) and len(call.args) == 1 and not call.keywords):
        return None
    r = repo.resolve(module, call.func.id)
    h = None
    if r and r[0] == 'func':
        h = r[1]
    else:
        # a function nested in the categoriser
        for fd_ in module.functions.values():
            for x in ast.walk(fd_.node):
                if isinstance(x, ast.FunctionDef) and x is not fd_.node and x.name == call.func.id and not x.decorator_list:
                    from .model import FuncDef as _FD
                    h = _FD(module, '%s.%s' % (fd_.qual, x.name), x)
    if h is None:
        return None
    body = strip_doc(h.node.body)
    params = h.params()
    if len(params) != 1:
        return None
    # loop form:  for k, vals in CATEGORY_CODES.items(): if <p> in vals: return k   ;   return <CC member>
    if len(body) == 2 and isinstance(body[0], ast.For) and isinstance(body[1], ast.Return) and not body[0].orelse:
        lp = body[0]
        it = lp.iter
        ok_iter = isinstance(it, ast.Call) and isinstance(it.func, ast.Attribute) and it.func.attr == 'items' \
            and isinstance(it.func.value, ast.Name) and it.func.value.id == 'CATEGORY_CODES' and not it.args
        ok_tgt = isinstance(lp.target, ast.Tuple) and len(lp.target.elts) == 2 and all(isinstance(e, ast.Name) for e in lp.target.elts)
        if ok_iter and ok_tgt and len(lp.body) == 1 and isinstance(lp.body[0], ast.If) and not lp.body[0].orelse \
                and len(lp.body[0].body) == 1 and isinstance(lp.body[0].body[0], ast.Return):
            k, vals = lp.target.elts[0].id, lp.target.elts[1].id
            t = lp.body[0].test
            ok_if = isinstance(t, ast.Compare) and len(t.ops) == 1 and isinstance(t.ops[0], ast.In) and isinstance(t.left, ast.Name) \
                and t.left.id == params[0] and isinstance(t.comparators[0], ast.Name) and t.comparators[0].id == vals
            rv = lp.body[0].body[0].value
            if ok_if and isinstance(rv, ast.Name) and rv.id == k and body[1].value is not None:
                try:
                    d = Folder(repo, h.module).ev(body[1].value)
                except Unfoldable:
                    return None
                if isinstance(d, FEnumMember):
                    return h, d
        return None
    if len(body) != 1 or not isinstance(body[0], ast.Return):
        return None
    d = table_scan_expr(repo, h.module, body[0].value, params[0])
    return (h, d) if d is not None else None


def table_scan_expr(repo, module, v, pname):
    """`next((k for k, vals in CATEGORY_CODES.items() if <pname> in vals), <CC member>)` -> that member, else None"""
    if not (isinstance(v, ast.Call) and isinstance(v.func, ast.Name) and v.func.id == 'next' and len(v.args) == 2
            and not v.keywords and isinstance(v.args[0], ast.GeneratorExp) and len(v.args[0].generators) == 1):
        return None
    g = v.args[0].generators[0]
    it = g.iter
    ok_iter = isinstance(it, ast.Call) and isinstance(it.func, ast.Attribute) and it.func.attr == 'items' \
        and isinstance(it.func.value, ast.Name) and it.func.value.id == 'CATEGORY_CODES' and not it.args
    ok_tgt = isinstance(g.target, ast.Tuple) and len(g.target.elts) == 2 and all(isinstance(e, ast.Name) for e in g.target.elts)
    if not (ok_iter and ok_tgt):
        return None
    k, vals = g.target.elts[0].id, g.target.elts[1].id
    ok_elt = isinstance(v.args[0].elt, ast.Name) and v.args[0].elt.id == k
    ok_if = len(g.ifs) == 1 and isinstance(g.ifs[0], ast.Compare) and len(g.ifs[0].ops) == 1 and isinstance(g.ifs[0].ops[0], ast.In) \
        and isinstance(g.ifs[0].left, ast.Name) and g.ifs[0].left.id == pname \
        and isinstance(g.ifs[0].comparators[0], ast.Name) and g.ifs[0].comparators[0].id == vals
    if not (ok_elt and ok_if):
        return None
    try:
        d = Folder(repo, module).ev(v.args[1])
    except Unfoldable:
        return None
    if not isinstance(d, FEnumMember):
        return None
    return d


class Alphabet:
    """Abstract characters: the CC members categorize() can assign, some of them split on
    single characters that rule guards compare against (e.g. '*')."""

    def __init__(self, repo):
        self.repo = repo
        self._catcache = {}
        self._symcache = {}
        self.CC = repo.fold_global('utils', 'CC')
        self.TC = repo.fold_global('utils', 'TC')
        if not isinstance(self.CC, FEnum) or not isinstance(self.TC, FEnum):
            raise AnalysisError('CC/TC do not fold to enums')
        self.codes = repo.fold_global('category', 'CATEGORY_CODES')
        if not isinstance(self.codes, dict):
            raise AnalysisError('CATEGORY_CODES does not fold to a dict')
        self.other = self.CC.members.get('Other')
        if self.other is None:
            raise AnalysisError('CC.Other vanished')
        # distinguished characters: 1-char string constants compared in tokens.py functions
        tok = repo.modules['tokens']
        self.special = set()
        for fn in tok.functions.values():
            for n in ast.walk(fn.node):
                if isinstance(n, ast.Compare):
                    for c in [n.left] + n.comparators:
                        if isinstance(c, ast.Constant) and isinstance(c.value, str) and len(c.value) == 1:
                            self.special.add(c.value)
        self.default_cc = self._fallback_category()
        produced = []
        for cc in self.codes:
            if cc not in produced:
                produced.append(cc)
        if self.default_cc not in produced:
            produced.append(self.default_cc)
        self.produced = produced
        self.syms = []
        self.sym_cc = {}
        for cc in produced:
            name = cc.mname
            chars = self.chars_of(cc)
            sp = sorted(ch for ch in self.special if self.cat_of_char(ch) == cc)
            for ch in sp:
                s = '%s:%s' % (name, ch)
                self.syms.append(s)
                self.sym_cc[s] = cc
            # the unsplit remainder (for the fallback category there is always a remainder)
            if cc == self.default_cc or chars is None or set(chars) - set(sp):
                self.syms.append(name)
                self.sym_cc[name] = cc
        self.TOP = frozenset(self.syms) | {EOF}
        self.ALL = frozenset(self.syms)

    def _fallback_category(self):
        """category given by categorize() to a char in no table entry (read from its AST)"""
        fn = self.repo.need_func('category.categorize')
        # find `yield Token(char, position, <X>)` whose third arg folds to a constant
        cands = []
        for n in ast.walk(fn.node):
            if isinstance(n, ast.Yield) and isinstance(n.value, ast.Call) and len(n.value.args) >= 3:
                try:
                    v = Folder(self.repo, fn.module).ev(n.value.args[2])
                    cands.append(v)
                except Unfoldable:
                    h = table_scan_helper(self.repo, fn.module, n.value.args[2])
                    if h is not None:
                        cands.append(h[1])
                    elif isinstance(n.value.args[0], ast.Name):
                        d_ = table_scan_expr(self.repo, fn.module, n.value.args[2], n.value.args[0].id)
                        if d_ is not None:
                            cands.append(d_)
        if len(cands) != 1 or not isinstance(cands[0], FEnumMember):
            # fall back to CC.Other; R19.a will examine categorize itself
            return self.other
        return cands[0]

    def chars_of(self, cc):
        v = self.codes.get(cc)
        if v is None:
            return None
        if isinstance(v, str):
            return list(v)          # `char in 'ab'` is substring test; for 1-char char = membership
        return list(v)

    def cat_of_char(self, ch):
        c = self._catcache.get(ch)
        if c is None:
            c = self._catcache[ch] = self._cat_of_char(ch)
        return c

    def _cat_of_char(self, ch):
        for cc, values in self.codes.items():
            if ch in values:
                return cc
        return self.default_cc

    def sym_of_char(self, ch):
        r = self._symcache.get(ch)
        if r is None:
            cc = self.cat_of_char(ch)
            s = '%s:%s' % (cc.mname, ch)
            r = self._symcache[ch] = s if s in self.sym_cc else cc.mname
        return r

    def cc_of(self, sym):
        return self.sym_cc[sym]

    def syms_of_ccs(self, ints):
        return frozenset(s for s in self.syms if int(self.sym_cc[s]) in ints)

    def ccname(self, sym):
        return self.sym_cc[sym].mname


Tok = collections.namedtuple('Tok', 'start lag blen minlen pos kind fresh shared invented origin after')
Tok.__new__.__defaults__ = (frozenset(),)
# after : names of token-valued locals whose text ended exactly where this (variable-length) token starts
# start : cursor offset (round coordinates) at which the token text starts, or None
# lag   : cursor - end of token text (0 = in sync), M when unknown/large
# blen  : exact length when known and small, else None
# minlen: lower bound on the length, saturating at 2
# pos   : ('first', k) position of the item at offset k | ('cursor', k) text.position read at k | ('other',)
# kind  : ('tc', frozenset[int]) | ('inh', frozenset[sym]) | None
# fresh : constructed by Token()/+/+= (True) or a slice handed out by the buffer (False)
# shared: may be the module-level shared empty token
# invented: text not taken from the input was added


class HDict(dict):
    """constant dict usable inside hashable abstract values (identity hash; never mutated)"""

    def __hash__(self):
        return id(self)

    def __eq__(self, o):
        return self is o

    def __lt__(self, o):
        return id(self) < id(o)


class Frame:
    __slots__ = ('fn', 'vars', 'entry', 'Wentry', 'eaten', 'rule', 'caller_cur', 'seq')

    def __init__(self, fn, vars, entry, Wentry, eaten=(), rule=None, caller_cur=0):
        # cursor offsets are relative to the entry of the innermost frame: entry is always 0;
        # caller_cur is the caller's offset at the call, restored (plus the movement) on return
        self.fn, self.vars, self.entry, self.Wentry, self.eaten, self.rule = fn, vars, entry, Wentry, eaten, rule
        self.caller_cur = caller_cur
        self.seq = ()       # category sets of the first two characters consumed by this invocation

    def copy(self):
        f = Frame(self.fn, dict(self.vars), self.entry, self.Wentry, self.eaten, self.rule, self.caller_cur)
        f.seq = self.seq
        return f

    def key(self):
        return (self.fn.qual, frozenset(self.vars.items()), self.caller_cur, self.Wentry, self.eaten, self.seq)



class St:
    __slots__ = ('W', 'cur', 'frames', 'log', 'imprecise', 'neg', 'lit')
    # lit: ('m', text) the characters at the cursor were just matched against this literal |
    #      ('c', text, start) exactly that literal was consumed, starting at cursor offset `start`, and nothing since
    # neg: literals (offset, text) that a look-ahead comparison at the current cursor position has excluded

    def __init__(self, W, cur=0, frames=(), log=(), imprecise=False, neg=frozenset(), lit=None):
        self.W, self.cur, self.frames, self.log, self.imprecise, self.neg, self.lit = W, cur, frames, log, imprecise, neg, lit

    def copy(self):
        return St(self.W, self.cur, tuple(f.copy() for f in self.frames), self.log, self.imprecise, self.neg, self.lit)

    def key(self):
        return (self.W, self.cur, tuple(f.key() for f in self.frames), self.log, self.imprecise, self.neg, self.lit)

    @property
    def top(self):
        return self.frames[-1]

    def slot(self, off):
        return self.W[off + LM]


COUNTED = 'EndOfLine'      # C09: "at most one line break" -- the one category whose multiplicity matters


def eaten_add(eaten, syms_list):
    """eaten = (frozenset of symbols that may have been consumed, saturating count of consumed
    slots that may hold a COUNTED character)"""
    syms0, cnt = eaten if eaten else (frozenset(), 0)
    acc = set(syms0)
    for syms in syms_list:
        acc |= syms
        if any(x.split(':')[0] == COUNTED for x in syms):
            cnt = min(cnt + 1, 2)
    return (frozenset(acc), cnt)


class Finding:
    def __init__(self, kind, fn, node, detail, window=None, imprecise=False):
        self.kind, self.fn, self.node, self.detail, self.window, self.imprecise = kind, fn, node, detail, window, imprecise

    def construct(self):
        return norm(self.node) if isinstance(self.node, ast.AST) else str(self.node)

    def key(self):
        return (self.kind, self.fn, self.construct())


class TokInterp(Interp):
    def __init__(self, repo, alpha, registry):
        super().__init__()
        self.repo, self.A, self.registry = repo, alpha, registry
        self.mod = repo.modules['tokens']
        self.findings = {}          # key -> Finding (first window kept) ; plus counts
        self.truncated = 0          # look-ahead paths cut off at the window edge
        self.literal_watch = ()     # command literals whose comparison is tracked (set by explore)
        esc_ = self.A.CC.members.get('Escape')
        self.escape_syms = self.A.syms_of_ccs({int(esc_)}) if esc_ is not None else frozenset()
        # does joining zero items hand out a shared module/class-level token (utils.Token.join -> Token.Empty)?
        self.empty_join_shared = False
        tokcls = repo.cls('utils.Token')
        if tokcls is not None and tokcls.methods.get('join'):
            for x in ast.walk(tokcls.methods['join'][-1].node):
                if isinstance(x, ast.Return) and isinstance(x.value, ast.Attribute) and isinstance(x.value.value, ast.Name) \
                        and x.value.value.id in ('Token', 'cls'):
                    self.empty_join_shared = True
        self.finding_windows = collections.defaultdict(set)
        self.entry_key = None
        self.deref_sites = set()    # all `.category/.position` dereference sites evaluated (for floors)
        self.guard_sites = set()
        self.states = 0
        self._fold_cache = {}
        self._locals = {}
        self._shape_cache = {}
        self._hd = {}

    # ------------------------------------------------------------------ reporting
    def where(self, n):
        return 'tokens.py:%s' % getattr(n, 'lineno', '?')

    def note(self, kind, node, detail, st):
        fn = st.top.fn.qual if st.frames else '?'
        f = Finding(kind, fn, node, detail, self.entry_key, st.imprecise)
        k = f.key()
        if k not in self.findings or (self.findings[k].imprecise and not st.imprecise):
            self.findings[k] = f
        self.finding_windows[k].add(self.entry_key)

    # ------------------------------------------------------------------ state helpers
    def with_slot(self, st, off, val):
        W = list(st.W)
        val = frozenset(val)
        W[off + LM] = val
        if val == frozenset({EOF}):
            for j in range(off + LM + 1, len(W)):
                W[j] = frozenset({EOF})
        if val == frozenset({BOF}):
            for j in range(0, off + LM):
                W[j] = frozenset({BOF})
        s = st.copy()
        s.W = tuple(W)
        return s

    def freeze_val(self, v, W):
        t = v[0]
        if t == 'slotcat':
            return ('cat', frozenset(int(self.A.cc_of(x)) for x in W[v[1] + LM] if x not in (EOF, BOF)))
        if t == 'item':
            return ('staleitem', frozenset(x for x in W[v[1] + LM] if x not in (EOF, BOF)))
        if t == 'tuple':
            return ('tuple', tuple(self.freeze_val(x, W) for x in v[1]))
        if t == 'range':
            return ('unknown', 'stale range')
        if t == 'tok':
            tk = v[1]
            return ('tok', tk)
        return v

    def consume(self, st, n):
        """advance the cursor by n (caller made sure slots 0..n-1 are not EOF)"""
        W = list(st.W)
        eaten_syms = [W[LM + k] - {EOF, BOF} for k in range(n)]
        last_is_eof = W[-1] == frozenset({EOF})
        newW = W[n:] + [frozenset({EOF}) if last_is_eof else self.A.TOP] * n
        s = st.copy()
        s.W = tuple(newW)
        s.cur = sat_add(st.cur, n)
        if n:
            s.neg = frozenset()
            s.lit = ('c', st.lit[1], st.cur) if st.lit is not None and st.lit[0] == 'm' and len(st.lit[1]) == n else None
        for fr in s.frames:
            fr.eaten = eaten_add(fr.eaten, eaten_syms)
            if len(fr.seq) < 2:
                fr.seq = (fr.seq + tuple(frozenset(x) for x in eaten_syms))[:2]
            for k, v in list(fr.vars.items()):
                v2 = self.freeze_val(v, W)
                if v2[0] in ('tok', 'toklist', 'strof'):
                    tk = v2[1]
                    v2 = (v2[0], tk._replace(lag=sat_add(tk.lag, n)))
                fr.vars[k] = v2
        return s

    def peek(self, off, st):
        if off + LM < 0:
            self.unsupported('peek offset %d outside the modelled window' % off)
        if off + LM >= len(st.W):
            # a look-ahead farther than the window: such runs are cut off (k-limiting); counted in the evidence
            self.truncated += 1
            return []
        cur = st.slot(off)
        outs = []
        absent = {EOF, BOF} & cur
        present = cur - {EOF, BOF}
        if present:
            outs.append((('item', off), self.with_slot(st, off, present) if absent else st))
        if absent:
            outs.append((('const', None), self.with_slot(st, off, absent) if present else st))
        return outs

    # ------------------------------------------------------------------ expressions
    def fold_try(self, n, st):
        """fold an expression that mentions no local of the current frame"""
        key = id(n)
        if key in self._fold_cache:
            return self._fold_cache[key]
        fn = st.top.fn
        locs = self._locals.get(fn)
        if locs is None:
            locs = set(fn.params())
            for x in ast.walk(fn.node):
                if isinstance(x, ast.Name) and isinstance(x.ctx, (ast.Store, ast.Del)):
                    locs.add(x.id)
                elif isinstance(x, ast.arg):
                    locs.add(x.arg)
            self._locals[fn] = locs
        res = None
        ok = True
        for x in ast.walk(n):
            if isinstance(x, ast.Name) and (x.id in locs or x.id == 'tokenizers'):
                ok = False
                break
        if ok:
            try:
                res = Folder(self.repo, fn.module).ev(n)
            except Unfoldable:
                res = None
        self._fold_cache[key] = res
        return res

    def ev_Constant(self, n, st):
        return [(('const', n.value), st)]

    def ev_Name(self, n, st):
        fr = st.top
        if n.id in fr.vars:
            return [(fr.vars[n.id], st)]
        if n.id == 'tokenizers' and self.repo.resolve(fr.fn.module, n.id):
            return [(('pyseq', True, tuple(('tuple', (('const', name), ('func', fd)))
                                           for name, fd in self.registry)), st)]
        v = self.fold_try(n, st)
        if v is not None or n.id == 'None':
            return [(self.lift(v), st)]
        self.unsupported('name %s' % n.id, n)

    def lift(self, v):
        if isinstance(v, (set, frozenset)):
            return ('pyseq', False, tuple(sorted(v, key=repr)))
        if isinstance(v, (list, tuple)) and not isinstance(v, str):
            return ('pyseq', True, tuple(v))
        if isinstance(v, FuncRef):
            return ('func', v.fdef)
        if isinstance(v, dict) and not isinstance(v, HDict):
            k = id(v)
            if k not in self._hd:
                self._hd[k] = (v, HDict(v))
            v = self._hd[k][1]
        return ('const', v)

    def ev_Tuple(self, n, st):
        outs = []
        for vals, s1 in self.evs(n.elts, st):
            outs.append((vals if isinstance(vals, Raised) else ('tuple', tuple(vals)), s1))
        return outs

    def ev_Dict(self, n, st):
        v = self.fold_try(n, st)
        if v is None:
            self.unsupported('non-constant dict display', n)
        return [(self.lift(v), st)]

    def ev_Set(self, n, st):
        v = self.fold_try(n, st)
        if v is None:
            self.unsupported('non-constant set display', n)
        return [(self.lift(v), st)]

    def ev_List(self, n, st):
        v = self.fold_try(n, st)
        if v is not None:
            return [(self.lift(v), st)]
        # a list of consecutive pieces of the input ([text.forward(1)], later joined): kept as their concatenation
        outs = []
        for vals, s1 in self.evs(n.elts, st):
            if isinstance(vals, Raised):
                outs.append((vals, s1))
                continue
            if not vals or not all(x[0] == 'tok' for x in vals):
                self.unsupported('non-constant list display', n)
            acc = vals[0]
            for x in vals[1:]:
                acc = self.concat(acc, x, n, s1)
            outs.append((('toklist', acc[1]), s1))
        return outs

    def _comprehension_values(self, n, st):
        """[<elt> for <target> in <ordered constant sequence>] without conditions -> list of element values"""
        if len(n.generators) != 1 or n.generators[0].ifs or n.generators[0].is_async:
            self.unsupported('comprehension %s' % norm(n)[:60], n)
        g = n.generators[0]
        res = []
        for it, s0 in self.ev(g.iter, st):
            if isinstance(it, Raised) or it[0] != 'pyseq' or not it[1]:
                self.unsupported('comprehension over %s' % (it[0] if not isinstance(it, Raised) else 'a raising expression'), n)
            vals = []
            for p in it[2]:
                pv = p if isinstance(p, tuple) and p and p[0] in ('tuple', 'const', 'func') else self.lift(p)
                for s1 in self.assign(g.target, pv, s0):
                    for v, _s2 in self.ev(n.elt, s1):
                        if isinstance(v, Raised):
                            self.unsupported('comprehension element raises', n)
                        vals.append(v)
            res.append((tuple(vals), s0))
        return res

    def ev_ListComp(self, n, st):
        v = self.fold_try(n, st)
        if v is not None:
            return [(self.lift(v), st)]
        return [(('pyseq', True, vals), s0) for vals, s0 in self._comprehension_values(n, st)]

    def ev_GeneratorExp(self, n, st):
        # a one-shot iterator: ('pygen', elements, number already consumed)
        return [(('pygen', vals, 0), s0) for vals, s0 in self._comprehension_values(n, st)]

    def ev_Attribute(self, n, st):
        v = self.fold_try(n, st)
        if v is not None and type(v).__name__ not in ('builtin_function_or_method', 'method', 'method-wrapper'):
            return [(self.lift(v), st)]
        outs = []
        for v, s1 in self.ev(n.value, st):
            if isinstance(v, Raised):
                outs.append((v, s1))
                continue
            outs += self.getattr_(v, n.attr, n, s1)
        return outs

    def getattr_(self, v, attr, n, st):
        t = v[0]
        if attr in ('category', 'position', 'text'):
            self.deref_sites.add((st.top.fn.qual, norm(n)))
        if t == 'const' and v[1] is None:
            self.note('none-deref', n, 'attribute %r of a peek that may be None (end of input)' % attr, st)
            return [(Raised('AttributeError', n, 'None.%s' % attr), st)]
        if attr == 'category':
            if t == 'item':
                return [(('slotcat', v[1]), st)]
            if t == 'staleitem':
                return [(('cat', frozenset(int(self.A.cc_of(x)) for x in v[1])), st)]
            if t == 'tok':
                return [(('tokcat', v[1]), st)]
            if t == 'ptok':
                return [(('cat', frozenset(int(m) for m in self.A.TC)), st)]
        if attr == 'position':
            if t == 'cursor':
                return [(('pos', st.cur), st)]
            if t == 'tok':
                return [(('tokpos', v[1].pos), st)]
            if t == 'item':
                return [(('tokpos', ('first', sat_add(st.cur, v[1]) if v[1] >= 0 else None)), st)]
        if attr == 'text':
            if t in ('tok', 'item', 'staleitem'):
                return [(v, st)]
        if t == 'const' and isinstance(v[1], dict) and attr in ('keys', 'values', 'items', 'get'):
            return [(('bound', v, attr), st)]
        if t == 'cursor':
            return [(('bound', v, attr), st)]
        if t == 'range' and attr == 'startswith':
            return [(('bound', v, attr), st)]
        if t in ('ptok', 'tok', 'item', 'staleitem') and attr in ('endswith', 'startswith', 'isspace', 'isalpha', 'isdigit'):
            return [(('bound', v, attr), st)]
        self.unsupported('attribute .%s of %s' % (attr, t), n)

    def ev_Lambda(self, n, st):
        return [(('lambda', n), st)]

    def call_lambda(self, lam, args, st):
        """evaluate a lambda body with its parameters bound (no closure variables other than the frame's)"""
        node = lam[1]
        params = [a.arg for a in node.args.args]
        s = st.copy()
        saved = {p: s.top.vars.get(p) for p in params}
        for p, a in zip(params, args):
            s.top.vars[p] = a
        outs = []
        for v, s1 in self.ev(node.body, s):
            s2 = s1.copy()
            for p, old in saved.items():
                if old is None:
                    s2.top.vars.pop(p, None)
                else:
                    s2.top.vars[p] = old
            outs.append((v, s2))
        return outs

    @staticmethod
    def insync(st):
        """(frame depth, name) of the token-valued locals whose text ends exactly at the cursor"""
        return frozenset((d, k) for d, fr in enumerate(st.frames) for k, v in fr.vars.items()
                         if v[0] in ('tok', 'toklist') and v[1].lag == 0)

    def forward_until(self, cond, peek_flag, st, node):
        """Buffer.forward_until(cond): consume items one at a time until cond(item) holds or the input ends;
        the result is the concatenation of what was consumed (summary of the method, see R11.d / R20)"""
        if cond[0] != 'lambda' or not peek_flag:
            self.unsupported('forward_until with a condition that is not a lambda over one item', node)
        insync = self.insync(st)
        empty = Tok(start=st.cur, lag=0, blen=0, minlen=0, pos=('first', st.cur), kind=None, fresh=True, shared=False,
                    invented=False, origin=None, after=insync)
        results, work, seen = [], [(st, empty)], set()
        while work:
            s0, acc = work.pop()
            k = (s0.key(), acc)
            if k in seen:
                continue
            seen.add(k)
            if len(seen) > 5000:
                raise AnalysisError('forward_until state space too large')
            for v, s1 in self.peek(0, s0):
                if v[0] == 'const':
                    results.append((('tok', acc), s1))
                    continue
                for cv, s2 in self.call_lambda(cond, [v], s1):
                    if isinstance(cv, Raised):
                        results.append((cv, s2))
                        continue
                    for b, s3 in self.truth(cv, s2):
                        if b:
                            results.append((('tok', acc), s3))
                        else:
                            for tv, s4 in self.forward(1, s3, node):
                                acc2 = self.concat(('tok', acc._replace(lag=sat_add(acc.lag, 1))), tv, node, s4)[1]
                                work.append((s4, acc2))
        return results

    def ev_UnaryOp(self, n, st):
        if isinstance(n.op, ast.Not):
            return [((b if isinstance(b, Raised) else ('const', b)), s1) for b, s1 in self.cond(n, st)]
        if isinstance(n.op, ast.USub):
            outs = []
            for v, s1 in self.ev(n.operand, st):
                if isinstance(v, Raised):
                    outs.append((v, s1))
                elif v[0] == 'const' and isinstance(v[1], int):
                    outs.append((('const', -v[1]), s1))
                else:
                    self.unsupported('negation of %s' % v[0], n)
            return outs
        self.unsupported('unary op', n)

    def ev_BoolOp(self, n, st):
        return [((b if isinstance(b, Raised) else ('const', b)), s1) for b, s1 in self.cond(n, st)]

    def ev_Compare(self, n, st):
        return [((b if isinstance(b, Raised) else ('const', b)), s1) for b, s1 in self.cond(n, st)]

    def ev_BinOp(self, n, st):
        outs = []
        for vals, s1 in self.evs([n.left, n.right], st):
            if isinstance(vals, Raised):
                outs.append((vals, s1))
                continue
            l, r = vals
            outs.append((self.binop(n, l, r, s1), s1))
        return outs

    def binop(self, n, l, r, st):
        if l[0] == 'const' and r[0] == 'const' and isinstance(l[1], int) and isinstance(r[1], int) \
                and not isinstance(l[1], bool) and not isinstance(r[1], bool) and isinstance(n.op, (ast.Mod, ast.Mult, ast.FloorDiv)):
            try:
                return ('const', {ast.Mod: lambda a, b: a % b, ast.Mult: lambda a, b: a * b,
                                  ast.FloorDiv: lambda a, b: a // b}[type(n.op)](l[1], r[1]))
            except ZeroDivisionError:
                pass
        if isinstance(n.op, ast.Sub):
            if l[0] == 'pos' and r[0] == 'tokpos':
                return ('posdiff', l[1], r[1])
            if l[0] == 'pos' and r[0] == 'pos':
                return ('posdiff', l[1], ('cursor', r[1]))
            if l[0] == 'const' and r[0] == 'const' and isinstance(l[1], int) and isinstance(r[1], int):
                return ('const', l[1] - r[1])
            if l[0] == 'posdiff' and r[0] == 'const' and isinstance(r[1], int):
                return ('posdiff', l[1], l[2], (l[3] if len(l) > 3 else 0) - r[1])
        if isinstance(n.op, ast.Add):
            if l[0] == 'const' and r[0] == 'const':
                try:
                    return ('const', l[1] + r[1])
                except TypeError:
                    pass
            if l[0] == 'posdiff' and r[0] == 'const' and isinstance(r[1], int):
                return ('posdiff', l[1], l[2], (l[3] if len(l) > 3 else 0) + r[1])
            if l[0] == 'tok' or r[0] == 'tok':
                return self.concat(l, r, n, st)
        self.unsupported('binary operation %s' % norm(n), n)

    def concat(self, a, b, n, st, aname=None):
        """Token + Token / Token + str  (summary of utils.Token.__add__/__iadd__/__radd__, see R13.b)"""
        if a[0] == 'tok' and b[0] == 'tok':
            A_, B_ = a[1], b[1]
            contiguous = B_.blen is not None and A_.lag != M and B_.lag != M and A_.lag == B_.lag + B_.blen
            if not contiguous and B_.blen is None and aname is not None and (len(st.frames) - 1, aname) in B_.after \
                    and B_.lag == 0:
                contiguous = True
            if not contiguous:
                if B_.blen is None or A_.lag == M or B_.lag == M:
                    self.unsupported('concatenation whose contiguity is not decidable: %s' % norm(n), n)
                self.note('non-contiguous-concat', n,
                          'token text skips or repeats input: left part ends %s before the cursor, right part '
                          'starts %s before it' % (A_.lag, B_.lag + B_.blen), st)
            blen = A_.blen + B_.blen if A_.blen is not None and B_.blen is not None and A_.blen + B_.blen < CAP else None
            t = A_._replace(lag=B_.lag, blen=blen, minlen=min(2, A_.minlen + B_.minlen),
                            fresh=True, shared=False, invented=A_.invented or B_.invented)
            return ('tok', t)
        if a[0] == 'tok' and b[0] == 'const' and isinstance(b[1], str):
            if b[1] == '':
                return ('tok', a[1]._replace(fresh=True, shared=False))
            self.note('invented-text', n, 'literal %r appended to a token' % b[1], st)
            return ('tok', a[1]._replace(fresh=True, shared=False, invented=True, minlen=min(2, a[1].minlen + 1), blen=None))
        if b[0] == 'tok' and a[0] == 'const' and isinstance(a[1], str):
            if a[1] == '':
                return ('tok', b[1]._replace(fresh=True, shared=False))
            self.note('invented-text', n, 'literal %r prepended to a token' % a[1], st)
            return ('tok', b[1]._replace(fresh=True, shared=False, invented=True, pos=('other',), blen=None))
        self.unsupported('concatenation %s' % norm(n), n)

    def aug_assign(self, n, st):
        if not isinstance(n.op, ast.Add) or not isinstance(n.target, ast.Name):
            self.unsupported('augmented assignment %s' % norm(n), n)
        outs = []
        for v, s1 in self.ev(n.value, st):
            if isinstance(v, Raised):
                outs.append((v, s1))
                continue
            a = s1.top.vars.get(n.target.id)
            if a is None:
                self.unsupported('augmented assignment to unknown local', n)
            if a[0] == 'const' and isinstance(a[1], int) and v[0] == 'const' and isinstance(v[1], int):
                res = ('const', a[1] + v[1])
            else:
                res = self.concat(a, v, n, s1, aname=n.target.id)
            s2 = s1.copy()
            s2.top.vars[n.target.id] = res
            outs.append((res, s2))
        return outs

    def ev_Subscript(self, n, st):
        outs = []
        for vals, s1 in self.evs([n.value, n.slice], st):
            if isinstance(vals, Raised):
                outs.append((vals, s1))
                continue
            d, k = vals
            if d[0] == 'const' and isinstance(d[1], dict):
                keysets = self.key_candidates(k, s1)
                if keysets is None:
                    self.unsupported('dict subscript with key %s' % k[0], n)
                res = set()
                missing = False
                for key in keysets:
                    if key in d[1]:
                        res.add(d[1][key])
                    else:
                        missing = True
                if missing:
                    self.note('unpinned-table-key', n, 'key may be absent from the constant table', s1)
                    outs.append((Raised('KeyError', n), s1))
                if res:
                    if all(isinstance(x, int) for x in res):
                        outs.append((('cat', frozenset(int(x) for x in res)), s1))
                    elif len(res) == 1:
                        outs.append((self.lift(next(iter(res))), s1))
                    else:
                        self.unsupported('dict lookup with several non-int results', n)
                continue
            if d[0] == 'tuple' and k[0] == 'const' and isinstance(k[1], int):
                try:
                    outs.append((d[1][k[1]], s1))
                except IndexError:
                    outs.append((Raised('IndexError', n), s1))
                continue
            self.unsupported('subscript of %s' % d[0], n)
        return outs

    def concrete_keys(self, k, st, node):
        """-> [(concrete key, state refined to that key)] for a category-valued abstract key (or tuple of them)"""
        if k[0] == 'const':
            return [(k[1], st)]
        if k[0] == 'cat':
            return [(cc, st.copy()) for cc in sorted(k[1])]
        if k[0] == 'slotcat':
            outs = []
            for cc in sorted({self.A.cc_of(x) for x in st.slot(k[1]) if x not in (EOF, BOF)}):
                for b, s1 in self.split_slot(k[1], {int(cc)}, st, False):
                    if b:
                        outs.append((cc, s1))
            return outs
        if k[0] == 'tuple':
            outs = [((), st)]
            for c in k[1]:
                outs = [(acc + (key,), s2) for acc, s1 in outs for key, s2 in self.concrete_keys(c, s1, node)]
            return outs
        self.unsupported('table key %s' % k[0], node)

    def key_candidates(self, k, st):
        """possible concrete keys of a category-valued abstract value"""
        if k[0] == 'const':
            return [k[1]]
        if k[0] == 'slotcat':
            return sorted({self.A.cc_of(x) for x in st.slot(k[1]) if x not in (EOF, BOF)})
        if k[0] == 'cat':
            return sorted(k[1])
        if k[0] == 'tokcat':
            kind = k[1].kind
            if kind is None:
                return None
            if kind[0] == 'inh':
                return sorted({self.A.cc_of(x) for x in kind[1]})
            return sorted(kind[1])
        if k[0] == 'tuple':
            parts = [self.key_candidates(x, st) for x in k[1]]
            if any(p is None for p in parts):
                return None
            out = [()]
            for p in parts:
                out = [a + (b,) for a in out for b in p]
            return out
        return None

    # ------------------------------------------------------------------ calls
    def ev_Call(self, n, st):
        f = n.func
        if isinstance(f, ast.Attribute) and f.attr == 'append' and isinstance(f.value, ast.Name) and len(n.args) == 1 \
                and not n.keywords and st.top.vars.get(f.value.id, ('?',))[0] in ('toklist', 'pyseq') \
                and (st.top.vars[f.value.id][0] == 'toklist' or st.top.vars[f.value.id][1:] == (True, ())):
            outs = []
            for v, s1 in self.ev(n.args[0], st):
                if isinstance(v, Raised):
                    outs.append((v, s1))
                    continue
                if v[0] != 'tok':
                    self.unsupported('append of %s to a list of input pieces' % v[0], n)
                cur = s1.top.vars[f.value.id]
                s2 = s1.copy()
                s2.top.vars[f.value.id] = ('toklist', v[1] if cur[0] == 'pyseq' else self.concat(('tok', cur[1]), v, n, s1, aname=f.value.id)[1])
                outs.append((('const', None), s2))
            return outs
        if isinstance(f, ast.Attribute) and f.attr == 'join' and isinstance(f.value, ast.Constant) and f.value.value == '' \
                and len(n.args) == 1 and not n.keywords:
            outs = []
            for v, s1 in self.ev(n.args[0], st):
                if isinstance(v, Raised):
                    outs.append((v, s1))
                elif v[0] == 'toklist':
                    outs.append((('strof', v[1]), s1))       # the characters of those pieces as a plain string
                elif v[0] == 'pyseq' and v[1:] == (True, ()):
                    outs.append((('const', ''), s1))
                else:
                    self.unsupported("''.join(%s)" % v[0], n)
            return outs
        if isinstance(f, ast.Name):
            if f.id == 'next' and f.id not in st.top.vars:
                return self.call_next(n, st)
            if f.id == 'len':
                outs = []
                for vals, s1 in self.evs(n.args, st):
                    if isinstance(vals, Raised):
                        outs.append((vals, s1))
                    elif vals[0][0] == 'const' and hasattr(vals[0][1], '__len__'):
                        outs.append((('const', len(vals[0][1])), s1))
                    elif vals[0][0] == 'pyseq':
                        outs.append((('const', len(vals[0][2])), s1))
                    elif vals[0][0] == 'tok' and not vals[0][1].invented:
                        # the length of a token's text = the extent of the input it was taken from
                        tk = vals[0][1]
                        outs.append((('const', tk.blen) if tk.blen is not None else ('toklen', tk), s1))
                    else:
                        self.unsupported('len of %s' % vals[0][0], n)
                return outs
            if f.id == 'Token' and self.resolves_to_token(st.top.fn.module, 'Token'):
                return self.call_Token(n, st)
            if f.id in ('sorted', 'tuple', 'list', 'set', 'frozenset', 'reversed'):
                v = self.fold_try(n, st)
                if v is not None:
                    return [(self.lift(v), st)]
                self.unsupported('call %s' % norm(n)[:60], n)
            if f.id == 'bool':
                return [((b if isinstance(b, Raised) else ('const', b)), s1) for b, s1 in self.cond(n.args[0], st)]
            if f.id == 'isinstance':
                self.unsupported('isinstance in a tokenizer rule', n)
        outs = []
        for fv, s1 in self.ev(f, st):
            if isinstance(fv, Raised):
                outs.append((fv, s1))
                continue
            if fv[0] == 'bound' and fv[1][0] == 'cursor':
                outs += self.cursor_call(fv[2], n, s1)
            elif fv[0] == 'bound' and fv[1][0] == 'const':
                d = fv[1][1]
                if fv[2] == 'keys':
                    outs.append((('pyseq', True, tuple(d.keys())), s1))
                elif fv[2] == 'values':
                    outs.append((('pyseq', True, tuple(d.values())), s1))
                elif fv[2] == 'get' and isinstance(d, dict) and 1 <= len(n.args) <= 2 and not n.keywords:
                    # table.get(key[, default]): one outcome per concrete key the abstract key can stand for (the
                    # window is refined to that key, as for `key in table`)
                    for vals, s2 in self.evs(n.args, s1):
                        if isinstance(vals, Raised):
                            outs.append((vals, s2))
                            continue
                        dflt = vals[1] if len(vals) > 1 else ('const', None)
                        for key, s3 in self.concrete_keys(vals[0], s2, n):
                            if key in d:
                                v = d[key]
                                outs.append((('cat', frozenset({int(v)})) if isinstance(v, int) and not isinstance(v, bool)
                                             else self.lift(v), s3))
                            else:
                                outs.append((dflt, s3))
                else:
                    self.unsupported('dict.%s' % fv[2], n)
            elif fv[0] == 'func':
                outs += self.call_func(fv[1], n, s1)
            elif fv[0] == 'nested':
                outs += self.call_nested(fv[1], n, s1)
            elif fv[0] == 'bound' and fv[1][0] in ('ptok', 'tok', 'item', 'staleitem') and fv[2] in (
                    'endswith', 'startswith', 'isspace', 'isalpha', 'isdigit'):
                # a test on the text of a token: not determined by the categories -- either outcome
                for vals, s2 in self.evs(n.args, s1):
                    if isinstance(vals, Raised):
                        outs.append((vals, s2))
                    else:
                        outs.append((('const', True), s2))
                        outs.append((('const', False), s2.copy()))
            elif fv[0] == 'bound' and fv[1][0] == 'range' and fv[2] == 'startswith' and len(n.args) == 1 and not n.keywords:
                for pv, s2 in self.ev(n.args[0], s1):
                    if isinstance(pv, Raised):
                        outs.append((pv, s2))
                    elif pv[0] == 'const' and isinstance(pv[1], str):
                        outs += [(('const', b), s3) for b, s3 in self.range_match(fv[1], pv[1], s2, n, False, prefix=True)]
                    else:
                        self.unsupported('startswith(%s) on a look-ahead range' % pv[0], n)
            else:
                self.unsupported('call of %s: %s' % (fv[0], norm(n)[:60]), n)
        return outs

    def resolves_to_token(self, module, name):
        r = self.repo.resolve(module, name)
        return bool(r and r[0] == 'class' and r[1].fq == 'utils.Token')

    def const_int(self, v, n):
        if v[0] == 'const' and isinstance(v[1], int) and not isinstance(v[1], bool):
            return int(v[1])
        self.unsupported('non-constant integer argument in %s' % norm(n)[:60], n)

    def cursor_call(self, meth, n, st):
        if n.keywords and not (meth == 'forward_until' and all(
                k.arg == 'peek' and isinstance(k.value, ast.Constant) and k.value.value is True for k in n.keywords)):
            self.unsupported('keyword arguments on cursor method', n)
        outs = []
        for vals, s1 in self.evs(n.args, st):
            if isinstance(vals, Raised):
                outs.append((vals, s1))
                continue
            if meth == 'peek':
                if not vals:
                    outs += self.peek(0, s1)
                elif vals[0][0] == 'tuple':
                    lo, hi = self.const_int(vals[0][1][0], n), self.const_int(vals[0][1][1], n)
                    outs.append((('range', lo, hi), s1))
                else:
                    outs += self.peek(self.const_int(vals[0], n), s1)
            elif meth == 'hasNext':
                k = self.const_int(vals[0], n) if vals else 1
                self.guard_sites.add((s1.top.fn.qual, norm(n)))
                for v, s2 in self.peek(k - 1, s1):
                    outs.append((('const', not (v[0] == 'const' and v[1] is None)), s2))
            elif meth == 'forward':
                k = self.const_int(vals[0], n) if vals else 1
                outs += self.forward(k, s1, n)
            elif meth == 'backward':
                outs += self.backward(vals[0] if vals else ('const', 1), s1, n)
            elif meth == 'forward_until':
                outs += self.forward_until(vals[0], True, s1, n)
            elif meth in ('startswith', 'endswith', 'num_forward_until'):
                self.unsupported('cursor method %s in tokenizer' % meth, n)
            else:
                self.unsupported('cursor method %s' % meth, n)
        return outs

    def next_of_generator(self, n, st):
        """next((<elt> for <t> in <table> if <cond>), <default>)  ==  first element of the iteration whose condition holds,
        else the default: evaluated as the for loop it abbreviates"""
        g = n.args[0]
        if len(g.generators) != 1 or g.generators[0].is_async or len(n.args) > 2 or n.keywords:
            self.unsupported('generator expression %s' % norm(g)[:60], n)
        gen = g.generators[0]
        res = '__next_result_%d' % id(n)
        test = gen.ifs[0] if len(gen.ifs) == 1 else (ast.BoolOp(ast.And(), list(gen.ifs)) if gen.ifs else ast.Constant(True))
        hit = [ast.Assign([ast.Name(res, ast.Store())], g.elt), ast.Break()]
        loop = ast.For(gen.target, gen.iter, [ast.If(test, hit, [])], [])
        for x in ast.walk(loop):
            if not hasattr(x, 'lineno'):
                x.lineno, x.col_offset = n.lineno, n.col_offset
        outs = []
        for dv, s0 in (self.ev(n.args[1], st) if len(n.args) > 1 else [(None, st)]):
            if isinstance(dv, Raised):
                outs.append((dv, s0))
                continue
            s1 = s0.copy()
            s1.top.vars[res] = ('nohit',)
            for out, s2 in self.st_For(loop, s1):
                if out != NEXT:
                    if isinstance(out, tuple) and out and out[0] == 'raise':
                        outs.append((out[2], s2))
                        continue
                    self.unsupported('generator expression leaves the loop with %s' % (out,), n)
                s3 = s2.copy()
                v = s3.top.vars.pop(res, ('nohit',))
                tname = gen.target.id if isinstance(gen.target, ast.Name) else None
                if v == ('nohit',):
                    if dv is None:
                        self.note('stopiteration', n, 'next() of an exhausted generator expression without default', s3)
                        outs.append((Raised('StopIteration', n), s3))
                    else:
                        outs.append((dv, s3))
                else:
                    outs.append((v, s3))
        return outs

    def call_next(self, n, st):
        if n.args and isinstance(n.args[0], ast.GeneratorExp):
            return self.next_of_generator(n, st)
        outs = []
        for vals, s1 in self.evs(n.args, st):
            if isinstance(vals, Raised):
                outs.append((vals, s1))
                continue
            if vals[0][0] != 'cursor':
                self.unsupported('next() of a non-cursor', n)
            for v, s2 in self.peek(0, s1):
                if v[0] == 'const':
                    if len(vals) > 1:
                        outs.append((vals[1], s2))
                        continue
                    self.note('stopiteration', n, 'next() with no item left', s2)
                    outs.append((Raised('StopIteration', n), s2))
                else:
                    outs += self.forward(1, s2, n, is_next=True)
        return outs

    def forward(self, k, st, node, is_next=False):
        if k < 0:
            return self.backward(('const', -k), st, node)
        states = [st]
        for j in range(k):
            nxt = []
            for s0 in states:
                for v, s1 in self.peek(j, s0):
                    if v[0] == 'const':
                        self.note('forward-past-end', node,
                                  'forward(%d) with fewer than %d items left: the cursor overshoots the end' % (k, k), s1)
                    else:
                        nxt.append(s1)
            states = nxt
        outs = []
        for s0 in states:
            first = s0.slot(0) - {EOF, BOF} if k > 0 else frozenset()
            # forward(0) joins nothing: utils.Token.join hands out the shared empty token, whose position is 0
            tok = Tok(start=s0.cur, lag=0, blen=k if k < CAP else None, minlen=min(k, 2),
                      pos=('first', s0.cur) if (k > 0 or not self.empty_join_shared) else ('other',),
                      kind=('inh', frozenset(first)), fresh=False, shared=(k == 0 and self.empty_join_shared), invented=False, origin=None,
                      after=self.insync(s0) if k >= CAP else frozenset())
            s1 = self.consume(s0, k)
            outs.append((('tok', tok), s1))
        return outs

    def backward(self, amount, st, node):
        fr = st.top
        target = None      # new cursor offset (round coordinates)
        if amount[0] == 'posdiff':
            extra = amount[3] if len(amount) > 3 else 0
            a, b = amount[1], amount[2]
            if a != st.cur:
                self.unsupported('rollback amount read at another cursor position', node)
            if b[0] in ('first', 'cursor') and b[1] is not None and b[1] != M:
                target = b[1] - extra
            else:
                self.unsupported('rollback to an untracked position', node)
        elif amount[0] == 'toklen':
            # backward(len(<token>)): back to the start of that token, provided it ends at the cursor
            tk = amount[1]
            if tk.lag != 0 or tk.start is None or tk.start == M:
                self.unsupported('rollback by the length of a token that does not end at the cursor', node)
            target = tk.start
        elif amount[0] == 'const' and isinstance(amount[1], int):
            if st.cur == M:
                self.unsupported('constant rollback from an untracked cursor offset', node)
            target = st.cur - amount[1]
        else:
            self.unsupported('rollback amount %s' % amount[0], node)
        if target < fr.entry:
            self.note('rollback-before-entry', node, 'the rule moves the cursor to before its entry position '
                      '(characters would be tokenized twice)', st)
            return []
        if st.cur != M and target > st.cur:
            return self.forward(target - st.cur, st, node)
        shift = target - fr.entry
        Wen = list(fr.Wentry)
        # window before the entry slot is the consumed one; later slots unknown beyond snapshot
        newW = Wen[shift:] + [Wen[-1] if Wen[-1] == frozenset({EOF}) else self.A.TOP] * shift
        s = st.copy()
        s.W = tuple(newW)
        s.cur = target
        s.neg = frozenset()
        s.lit = None
        eaten_syms = [Wen[LM + j] - {EOF, BOF} for j in range(shift)]
        for f2 in s.frames:
            if f2 is s.frames[-1] or (f2.rule is not None and all(f3.rule is None for f3 in s.frames[s.frames.index(f2) + 1:])):
                f2.eaten = eaten_add((), eaten_syms)
                f2.seq = tuple(frozenset(x) for x in eaten_syms)[:2]
            for k, v in list(f2.vars.items()):
                if v[0] in ('tok', 'toklist', 'strof'):
                    # tokens built so far now lie (partly) after the cursor
                    f2.vars[k] = (v[0], v[1]._replace(lag=M))
                elif v[0] in ('item', 'slotcat', 'range'):
                    f2.vars[k] = ('unknown', 'stale after rollback')
        return [(('unknown', 'backward result'), s)]

    def call_Token(self, n, st):
        outs = []
        kwnames = [k.arg for k in n.keywords]
        for vals, s1 in self.evs(list(n.args) + [k.value for k in n.keywords], st):
            if isinstance(vals, Raised):
                outs.append((vals, s1))
                continue
            pos_args = vals[:len(n.args)]
            kw = dict(zip(kwnames, vals[len(n.args):]))
            params = ['text', 'position', 'category']
            bound = dict(zip(params, pos_args))
            bound.update(kw)
            text = bound.get('text', ('const', ''))
            kind = None
            if 'category' in bound and not (bound['category'][0] == 'const' and bound['category'][1] is None):
                c = bound['category']
                if c[0] == 'const' and isinstance(c[1], int):
                    kind = ('tc', frozenset({int(c[1])}))
                elif c[0] == 'cat':
                    kind = ('tc', c[1])
                else:
                    self.unsupported('Token category argument %s' % c[0], n)
            if text[0] == 'const' and isinstance(text[1], str):
                p = bound.get('position', ('const', None))
                if p[0] == 'pos':
                    pos = ('cursor', p[1])
                elif p[0] == 'tokpos':
                    pos = p[1]
                else:
                    pos = ('other',)
                invented = text[1] != ''
                if invented and s1.lit is not None and s1.lit[0] == 'c' and s1.lit[1] == text[1]:
                    # the literal is a copy of the characters just matched and consumed
                    k_ = len(text[1])
                    tok = Tok(start=s1.lit[2], lag=0, blen=k_ if k_ < CAP else None, minlen=min(k_, 2), pos=pos, kind=kind,
                              fresh=True, shared=False, invented=False, origin=None)
                    outs.append((('tok', tok), s1))
                    continue
                if invented:
                    self.note('invented-text', n, 'token constructed from the literal %r' % text[1], s1)
                tok = Tok(start=s1.cur, lag=0, blen=0 if not invented else None, minlen=0 if not invented else 1,
                          pos=pos, kind=kind, fresh=True, shared=False, invented=invented, origin=None)
                outs.append((('tok', tok), s1))
            elif text[0] == 'strof':
                # a plain string made of consumed pieces: the token takes the position argument
                p = bound.get('position', ('const', None))
                pos = ('cursor', p[1]) if p[0] == 'pos' else (p[1] if p[0] == 'tokpos' else ('other',))
                t = text[1]._replace(fresh=True, shared=False, pos=pos, kind=kind)
                outs.append((('tok', t), s1))
            elif text[0] == 'tok':
                # utils.Token.__new__: text/position copied from the Token argument, the position
                # argument is ignored, category = explicit or inherited (checked by rule R13.b)
                t = text[1]._replace(fresh=True, shared=False)
                if kind:
                    t = t._replace(kind=kind)
                outs.append((('tok', t), s1))
            else:
                self.unsupported('Token(%s, ...)' % text[0], n)
        return outs

    def call_func(self, fd, n, st):
        """inline a call to a repo function (a tokenizer rule or next_token)"""
        if len(st.frames) > 4:
            self.unsupported('call depth', n)
        outs = []
        kwnames = [k.arg for k in n.keywords]
        if any(k is None for k in kwnames) or any(isinstance(a, ast.Starred) for a in n.args):
            self.unsupported('star arguments', n)
        for vals, s1 in self.evs(list(n.args) + [k.value for k in n.keywords], st):
            if isinstance(vals, Raised):
                outs.append((vals, s1))
                continue
            params = fd.params()
            bound = {}
            for p, d in fd.defaults().items():
                dv = self.fold_try_module(d, fd.module)
                bound[p] = self.lift(dv)
            for p, v in zip(params, vals[:len(n.args)]):
                bound[p] = v
            for kname, v in zip(kwnames, vals[len(n.args):]):
                if kname not in params:
                    self.unsupported('unknown keyword %s' % kname, n)
                bound[kname] = v
            if any(p not in bound for p in params):
                self.unsupported('unbound parameter calling %s' % fd.qual, n)
            outs += self.run_frame(fd, bound, s1)
        return outs

    def fold_try_module(self, node, module):
        try:
            return Folder(self.repo, module).ev(node)
        except Unfoldable:
            self.unsupported('default argument not constant', node)

    def run_frame(self, fd, bound, st, rule=None):
        s = st.copy()
        rule = rule or next((name for name, f in self.registry if f is fd), None)
        is_helper = rule is None and len(s.frames) >= 1 and fd.qual != 'next_token'
        if is_helper:
            # a helper called from a rule works in the rule's coordinates (tokens passed in and out keep
            # their spans); a rollback inside it refers to the rule's entry
            outer = s.frames[-1]
            hf = Frame(fd, dict(bound), outer.entry, outer.Wentry, (), None, caller_cur=None)
            s.frames = s.frames + (hf,)
        else:
            s.frames = s.frames + (Frame(fd, dict(bound), 0, s.W, (), rule, caller_cur=s.cur),)
            s.cur = 0
        outs = []
        for out, s1 in self.block(strip_doc(fd.node.body), s):
            self.states += 1
            if out == NEXT:
                rv = ('const', None)
            elif out[0] == 'return':
                rv = out[1] if out[1] is not None else ('const', None)
            elif out[0] == 'raise':
                fr = s1.frames[-1]
                s2 = s1.copy()
                s2.frames = s2.frames[:-1]
                if fr.caller_cur is not None:
                    s2.cur = sat_add(fr.caller_cur, s1.cur)
                outs.append((out[2] if len(out) > 2 else Raised(out[1]), s2))
                continue
            else:
                self.unsupported('break/continue outside loop in %s' % fd.qual)
            fr = s1.frames[-1]
            s2 = s1.copy()
            s2.frames = s2.frames[:-1]
            if fr.rule is not None:
                rv, s2 = self.rule_return(fr, rv, s2)
            if fr.caller_cur is not None:
                s2.cur = sat_add(fr.caller_cur, s1.cur)
                if rv[0] == 'tok':
                    rv = ('tok', self.shift_tok(rv[1], fr.caller_cur))
            outs.append((rv, s2))
        return outs

    def rule_return(self, fr, rv, st):
        moved = self.moved(fr.entry, st.cur)
        if rv[0] == 'tok':
            t = rv[1]
            rec = ('emit', fr.rule, t._replace(origin=fr.rule), moved, fr.eaten or (frozenset(), 0), st.W[LM], fr.seq)
            st.log = st.log + (rec,)
            return ('tok', t._replace(origin=fr.rule)), st
        if rv[0] == 'const' and rv[1] is None:
            if moved != 0:
                st.log = st.log + (('silent', fr.rule, None, moved, fr.eaten or (frozenset(), 0), st.W[LM], fr.seq),)
            elif self.literal_watch and st.slot(-1) and st.slot(-1) <= self.escape_syms:
                # the rule declines right after a backslash: which watched command literals could still stand at
                # the cursor without the rule having compared (and excluded) them?
                open_ = tuple(p for p in self.literal_watch if (0, p) not in st.neg and all(
                    self.A.sym_of_char(ch) in st.slot(k) for k, ch in enumerate(p)))
                if open_:
                    st.log = st.log + (('declined', fr.rule, open_),)
            return rv, st
        if rv[0] in ('item', 'staleitem'):
            self.unsupported('rule %s returns a bare character item' % fr.rule)
        self.unsupported('rule %s returns %s' % (fr.rule, rv[0]))

    @staticmethod
    def shift_tok(t, base):
        def sh(k):
            return None if k is None else sat_add(base, k)
        pos = t.pos
        if pos[0] in ('first', 'cursor'):
            pos = (pos[0], sh(pos[1]))
        return t._replace(start=sh(t.start), pos=pos)

    @staticmethod
    def moved(entry, cur):
        if cur == M:
            return M
        return cur - entry

    # ------------------------------------------------------------------ conditions
    def truth(self, v, st):
        t = v[0]
        if t == 'const':
            return [(bool(v[1]), st)]
        if t in ('item', 'staleitem'):
            return [(True, st)]          # a character token is never empty
        if t == 'tok':
            tk = v[1]
            if tk.minlen >= 1:
                return [(True, st)]
            if tk.blen == 0:
                return [(False, st)]
            return [(True, st), (False, st)]
        if t == 'ptok':
            return [(True, st)]
        if t == 'range':
            return [(True, st), (False, st)]
        if t == 'pyseq':
            return [(bool(v[2]), st)]
        if t == 'func':
            return [(True, st)]
        self.unsupported('truth value of %s' % t)

    def atom(self, n, st):
        if isinstance(n, ast.Compare):
            if len(n.ops) != 1:
                self.unsupported('chained comparison', n)
            outs = []
            for vals, s1 in self.evs([n.left, n.comparators[0]], st):
                if isinstance(vals, Raised):
                    outs.append((vals, s1))
                else:
                    outs += self.compare(n.ops[0], vals[0], vals[1], s1, n)
            return outs
        # `if result:` refines emptiness of a token-valued local
        if isinstance(n, ast.Name) and n.id in st.top.vars and st.top.vars[n.id][0] == 'tok':
            tk = st.top.vars[n.id][1]
            if tk.minlen == 0 and tk.blen != 0:
                s_t, s_f = st.copy(), st.copy()
                s_t.top.vars[n.id] = ('tok', tk._replace(minlen=1))
                s_f.top.vars[n.id] = ('tok', tk._replace(blen=0))
                return [(True, s_t), (False, s_f)]
        return super().atom(n, st)

    def range_match(self, l, p, st, node, neg, prefix):
        """text.peek((lo, hi)) == p   /   text.peek((lo, hi)).startswith(p)"""
        lo, hi = l[1], l[2]
        if hi - lo < len(p) or lo < 0:
            return [(neg, st)]
        if lo + len(p) + LM >= len(st.W):
            self.unsupported('range peek beyond the modelled window', node)
        sneg = st
        if self.literal_watch and self.shape_of(p) in self.watch_shapes():
            sneg = st.copy()
            sneg.neg = st.neg | {(lo, p)}
        outs = [(neg, sneg)]
        s1, ok = st, True
        for k, ch in enumerate(p):
            sym = self.A.sym_of_char(ch)
            if sym not in s1.slot(lo + k):
                ok = False
                break
            s1 = self.with_slot(s1, lo + k, {sym})
        if ok and hi - lo > len(p) and not prefix:
            # a longer range equals the literal only when the input ends right after it
            if EOF in s1.slot(lo + len(p)):
                s1 = self.with_slot(s1, lo + len(p), {EOF})
            else:
                ok = False
        if ok:
            if lo == 0 and p:
                s1 = s1.copy()
                s1.lit = ('m', p)
            outs.append((not neg, s1))
        return outs

    def split_slot(self, off, ints, st, neg):
        cur = st.slot(off)
        yes = {x for x in cur if x not in (EOF, BOF) and int(self.A.cc_of(x)) in ints}
        no = cur - yes
        outs = []
        if yes:
            outs.append((not neg, self.with_slot(st, off, yes)))
        if no:
            outs.append((neg, self.with_slot(st, off, no)))
        return outs

    def const_ints(self, r):
        """integer set denoted by a constant collection value"""
        if r[0] == 'tuple':
            if all(x[0] == 'const' for x in r[1]):
                return [x[1] for x in r[1]]
            return None
        if r[0] == 'pyseq':
            return list(r[2])
        if r[0] == 'const' and isinstance(r[1], (dict, set, frozenset, tuple, list)):
            return list(r[1])
        return None

    def compare(self, op, l, r, st, node):
        neg = isinstance(op, (ast.NotEq, ast.NotIn, ast.IsNot))
        if isinstance(op, (ast.Is, ast.IsNot)):
            if not (r[0] == 'const' and r[1] is None):
                self.unsupported('identity test against non-None', node)
            if l[0] == 'const':
                return [((l[1] is None) != neg, st)]
            if l[0] in ('tok', 'item', 'staleitem', 'ptok', 'cursor', 'pyseq', 'func', 'tuple', 'cat', 'slotcat', 'tokcat'):
                return [(neg, st)]
            self.unsupported('identity test of %s' % l[0], node)
        if isinstance(op, (ast.Eq, ast.NotEq)):
            if l[0] == 'const' and r[0] != 'const':
                l, r = r, l
            if l[0] == 'slotcat' and r[0] == 'const' and isinstance(r[1], int):
                return self.split_slot(l[1], {int(r[1])}, st, neg)
            if l[0] == 'cat' and r[0] == 'const' and isinstance(r[1], int):
                if int(r[1]) not in l[1]:
                    return [(neg, st)]
                if l[1] == frozenset({int(r[1])}):
                    return [(not neg, st)]
                return [(True, st), (False, st)]
            if l[0] == 'tokcat' and r[0] == 'const' and isinstance(r[1], int):
                cands = self.key_candidates(l, st)
                if cands is None:
                    return [(neg, st)] if r[1] is not None else [(not neg, st)]
                ints = {int(c) for c in cands}
                if int(r[1]) not in ints:
                    return [(neg, st)]
                if ints == {int(r[1])}:
                    return [(not neg, st)]
                return [(True, st), (False, st)]
            if l[0] == 'item' and r[0] == 'const' and isinstance(r[1], str):
                if len(r[1]) != 1:
                    return [(neg, st)]
                want = self.A.sym_of_char(r[1])
                cur = st.slot(l[1])
                exact = ':' in want
                outs = []
                if want in cur:
                    outs.append((not neg, self.with_slot(st, l[1], {want})))
                    rest = cur - {want} if exact else cur
                    if rest:
                        outs.append((neg, self.with_slot(st, l[1], rest) if exact else st))
                else:
                    outs.append((neg, st))
                return outs
            if l[0] == 'const' and r[0] == 'const':
                return [((l[1] == r[1]) != neg, st)]
            if l[0] == 'range' and r[0] == 'const' and isinstance(r[1], str):
                return self.range_match(l, r[1], st, node, neg, prefix=False)
            if False:
                lo, hi = l[1], l[2]
                p = r[1]
                if hi - lo < len(p) or lo < 0:
                    return [(neg, st)]
                if lo + len(p) + LM >= len(st.W):
                    self.unsupported('range peek beyond the modelled window', node)
                outs = [(neg, st)]
                s1, ok = st, True
                for k, ch in enumerate(p):
                    sym = self.A.sym_of_char(ch)
                    if sym not in s1.slot(lo + k):
                        ok = False
                        break
                    s1 = self.with_slot(s1, lo + k, {sym})
                if ok and hi - lo > len(p):
                    # a longer range equals the literal only when the input ends right after it
                    if EOF in s1.slot(lo + len(p)):
                        s1 = self.with_slot(s1, lo + len(p), {EOF})
                    else:
                        ok = False
                if ok:
                    outs.append((not neg, s1))
                return outs
            if l[0] == 'pos' and r[0] == 'pos':
                a, b = l[1], r[1]
                if a == M and b == M:
                    return [(True, st), (False, st)]
                return [((a == b) != neg, st)]
            if (l[0] == 'const' and l[1] is None) or (r[0] == 'const' and r[1] is None):
                other = r if l[0] == 'const' and l[1] is None else l
                if other[0] in ('item', 'tok', 'staleitem', 'ptok', 'slotcat', 'cat', 'pos'):
                    return [(neg, st)]
            if l[0] in ('tok', 'item', 'staleitem') and r[0] in ('tok', 'item', 'staleitem', 'const') and \
                    (r[0] != 'const' or isinstance(r[1], str)):
                # comparison of token texts: not determined by the categories, either outcome is possible
                return [(True, st), (False, st.copy())]
            self.unsupported('comparison %s' % norm(node)[:70], node)
        if isinstance(op, (ast.In, ast.NotIn)):
            ints = self.const_ints(r)
            if ints is None:
                self.unsupported('membership in %s' % r[0], node)
            if l[0] == 'slotcat':
                return self.split_slot(l[1], {int(x) for x in ints if isinstance(x, int)}, st, neg)
            if l[0] in ('cat', 'tokcat'):
                cands = self.key_candidates(l, st)
                if cands is None:
                    return [(neg, st)]
                yes = [c for c in cands if c in ints]
                if not yes:
                    return [(neg, st)]
                if len(yes) == len(cands):
                    return [(not neg, st)]
                return [(True, st), (False, st)]
            if l[0] == 'tuple':
                # tuple of category values against a table of tuples: enumerate and refine slots
                outs = []

                def rec(i, s0, acc):
                    if i == len(l[1]):
                        outs.append(((tuple(acc) in ints) != neg, s0))
                        return
                    c = l[1][i]
                    if c[0] == 'slotcat':
                        for cc in sorted({self.A.cc_of(x) for x in s0.slot(c[1]) if x not in (EOF, BOF)}):
                            for b, s1 in self.split_slot(c[1], {int(cc)}, s0, False):
                                if b:
                                    rec(i + 1, s1, acc + [cc])
                    elif c[0] == 'cat':
                        for cc in sorted(c[1]):
                            rec(i + 1, s0, acc + [cc])
                    elif c[0] == 'const':
                        rec(i + 1, s0, acc + [c[1]])
                    else:
                        self.unsupported('tuple member %s in membership test' % c[0], node)
                rec(0, st, [])
                return outs
            if l[0] == 'const':
                return [((l[1] in ints) != neg, st)]
            if l[0] == 'item':
                # character in a collection of characters
                if all(isinstance(x, str) and len(x) == 1 for x in ints):
                    cur = st.slot(l[1])
                    want = {self.A.sym_of_char(x) for x in ints}
                    outs = []
                    if want & cur:
                        outs.append((not neg, st))
                    outs.append((neg, st))
                    return [(b, st.copy()) for b, _ in outs]
            self.unsupported('membership test of %s' % l[0], node)
        if isinstance(op, (ast.Lt, ast.LtE, ast.Gt, ast.GtE)):
            if l[0] == 'const' and r[0] == 'const':
                f = {ast.Lt: lambda a, b: a < b, ast.LtE: lambda a, b: a <= b, ast.Gt: lambda a, b: a > b,
                     ast.GtE: lambda a, b: a >= b}[type(op)]
                return [(f(l[1], r[1]), st)]
        self.unsupported('comparison operator in %s' % norm(node)[:70], node)

    # ------------------------------------------------------------------ statements
    def st_Assert(self, n, st):
        """an assertion whose test is outside the abstract domain (an integer inequality, say) restates an invariant: it is
        assumed to hold (with -O it is not even evaluated); decidable ones are evaluated as usual"""
        try:
            return super().st_Assert(n, st)
        except Unsupported:
            if any(isinstance(x, ast.Call) for x in ast.walk(n.test)):
                raise
            return [(NEXT, st)]

    def on_nested_def(self, n, st):
        """a function defined inside a rule: remembered, and run in the rule's own frame when called (it reads and, with
        `nonlocal`, writes the rule's locals)"""
        if n.decorator_list or n.args.vararg or n.args.kwarg or n.args.kwonlyargs:
            self.unsupported('nested function %s with decorators or star parameters' % n.name, n)
        s = st.copy()
        s.top.vars[n.name] = ('nested', n)
        return [(NEXT, s)]

    def st_Nonlocal(self, n, st):
        return [(NEXT, st)]

    def call_nested(self, fnode, n, st):
        params = [a.arg for a in fnode.args.args]
        defaults = dict(zip(params[len(params) - len(fnode.args.defaults):], fnode.args.defaults))
        outs = []
        if n.keywords and any(k.arg is None for k in n.keywords):
            self.unsupported('** arguments to a nested function', n)
        for vals, s1 in self.evs(list(n.args) + [k.value for k in n.keywords], st):
            if isinstance(vals, Raised):
                outs.append((vals, s1))
                continue
            bound = dict(zip(params, vals[:len(n.args)]))
            for k, v in zip(n.keywords, vals[len(n.args):]):
                bound[k.arg] = v
            s2 = s1.copy()
            for p in params:
                if p not in bound:
                    if p in defaults and isinstance(defaults[p], ast.Constant):
                        bound[p] = ('const', defaults[p].value)
                    else:
                        self.unsupported('nested function %s called without %s' % (fnode.name, p), n)
            # locals of the nested function that are not declared nonlocal live under a private prefix
            nonloc = {x for st_ in ast.walk(fnode) if isinstance(st_, ast.Nonlocal) for x in st_.names}
            stored = {x.id for x in ast.walk(fnode) if isinstance(x, ast.Name) and isinstance(x.ctx, ast.Store)} - nonloc
            clash = [p for p in list(params) + sorted(stored) if p in s2.top.vars]
            saved = {p: s2.top.vars[p] for p in clash}
            for p, v in bound.items():
                s2.top.vars[p] = v
            self._nest_depth = getattr(self, '_nest_depth', 0) + 1
            if self._nest_depth > 3:
                self.unsupported('nested function recursion', n)
            try:
                for out, s3 in self.block(strip_doc(fnode.body), s2):
                    if out == NEXT:
                        rv = ('const', None)
                    elif out[0] == 'return':
                        rv = out[1] if out[1] is not None else ('const', None)
                    elif out[0] == 'raise':
                        outs.append((out[2] if len(out) > 2 else Raised(out[1]), s3))
                        continue
                    else:
                        self.unsupported('break/continue leaves the nested function %s' % fnode.name, n)
                    s4 = s3.copy()
                    for p in list(params) + sorted(stored):
                        s4.top.vars.pop(p, None)
                    for p, v in saved.items():
                        s4.top.vars[p] = v
                    outs.append((rv, s4))
            finally:
                self._nest_depth -= 1
        return outs

    def assign(self, target, val, st):
        if isinstance(target, ast.Tuple) and val[0] == 'const' and isinstance(val[1], tuple) and len(val[1]) == len(target.elts):
            val = ('tuple', tuple(self.lift(x) for x in val[1]))
        if isinstance(target, ast.Tuple) and val[0] == 'pyseq' and val[1] and len(val[2]) == len(target.elts):
            val = ('tuple', tuple(x if isinstance(x, tuple) and x and isinstance(x[0], str) and x[0] in ('const', 'tuple', 'cat', 'func')
                                  else self.lift(x) for x in val[2]))
        if isinstance(target, ast.Name):
            s = st.copy()
            s.top.vars[target.id] = val
            return [s]
        if isinstance(target, ast.Tuple) and val[0] == 'tuple' and len(val[1]) == len(target.elts):
            states = [st]
            for e, v in zip(target.elts, val[1]):
                states = [s2 for s1 in states for s2 in self.assign(e, v, s1)]
            return states
        if isinstance(target, ast.Attribute) and isinstance(target.value, ast.Name):
            base = st.top.vars.get(target.value.id)
            if base is not None and base[0] == 'tok' and target.attr == 'category':
                tk = base[1]
                if tk.shared or (not tk.fresh and tk.minlen == 0):
                    self.note('store-on-shared-empty-token', target,
                              'attribute stored on a token that may be the module-level shared empty token', st)
                if val[0] == 'const' and isinstance(val[1], int):
                    kind = ('tc', frozenset({int(val[1])}))
                elif val[0] == 'cat':
                    kind = ('tc', val[1])
                elif val[0] == 'slotcat' or val[0] == 'tokcat':
                    kind = ('inh', frozenset())
                else:
                    self.unsupported('category value %s' % val[0], target)
                s = st.copy()
                s.top.vars[target.value.id] = ('tok', tk._replace(kind=kind))
                return [s]
            if base is not None and base[0] == 'tok' and target.attr == 'position':
                s = st.copy()
                pos = ('cursor', val[1]) if val[0] == 'pos' else (val[1] if val[0] == 'tokpos' else ('other',))
                s.top.vars[target.value.id] = ('tok', base[1]._replace(pos=pos))
                return [s]
        self.unsupported('assignment target %s (value %s)' % (norm(target), str(val)[:80]), target)

    def on_for(self, n, st):
        outs_all = []
        for it, s0 in self.ev(n.iter, st):
            if isinstance(it, Raised):
                outs_all.append((('raise', it.exc, it), s0))
                continue
            gen_name = None
            if it[0] == 'pygen':
                # a one-shot iterator: the loop takes up where the previous one stopped, and leaves it advanced
                if not isinstance(n.iter, ast.Name):
                    self.unsupported('iteration over an anonymous generator', n)
                gen_name, gen_all, gen_done = n.iter.id, it[1], it[2]
                it = ('pyseq', True, it[1][it[2]:])
            if it[0] != 'pyseq':
                self.unsupported('iteration over %s' % it[0], n)
            ordered, elems = it[1], it[2]
            if ordered:
                frontier = [s0]
                seen_shapes = {}
                for k_, p in enumerate(elems):
                    if gen_name is not None:
                        nf = []
                        for f_ in frontier:
                            f2_ = f_.copy()
                            f2_.top.vars[gen_name] = ('pygen', gen_all, gen_done + k_ + 1)
                            nf.append(f2_)
                        frontier = nf
                    shape = self.shape_of(p) if gen_name is None else None
                    if shape is not None:
                        if shape in seen_shapes:
                            if self.literal_watch:
                                frontier = [self.same_shape_negs(f, seen_shapes[shape], [p]) for f in frontier]
                            continue
                        seen_shapes[shape] = p
                    nxt = []
                    for s1 in frontier:
                        pv = p if isinstance(p, tuple) and p and p[0] in ('tuple', 'const', 'func') else self.lift(p)
                        for s2 in self.assign(n.target, pv, s1):
                            for out, s3 in self.block(n.body, s2):
                                if out in (NEXT, CONTINUE):
                                    nxt.append(s3)
                                elif out == BREAK:
                                    outs_all.append((BROKE, s3))
                                else:
                                    outs_all.append((out, s3))
                    frontier = self.dedupe(nxt)
                    if len(frontier) > 4000:
                        raise AnalysisError('for-loop frontier too large at %s' % self.where(n))
                outs_all += [(NEXT, f) for f in frontier]
            else:
                # unordered collection: any element may be visited first; element bodies that fall
                # through leave the state unchanged only if the body is pure -- we require it
                shapes = {}
                members = {}
                for p in elems:
                    k_ = self.shape_of(p) or repr(p)
                    shapes.setdefault(k_, p)
                    members.setdefault(k_, []).append(p)
                negs = set()
                for shape, p in shapes.items():
                    shape_negs = None       # exclusions common to every fall-through path of this element
                    for s2 in self.assign(n.target, self.lift(p), s0):
                        for out, s3 in self.block(n.body, s2):
                            if out in (NEXT, CONTINUE):
                                if s3.cur != s0.cur:
                                    self.unsupported('body of an unordered iteration moves the cursor and continues', n)
                                # leaving the loop at the end means every element's body fell through
                                d_ = self.same_shape_negs(s3, p, members[shape]).neg - s0.neg
                                shape_negs = d_ if shape_negs is None else shape_negs & d_
                            elif out == BREAK:
                                outs_all.append((BROKE, s3))
                            else:
                                outs_all.append((out, s3))
                    negs |= shape_negs or set()
                fell = s0
                if negs:
                    fell = s0.copy()
                    fell.neg = s0.neg | negs
                outs_all.append((NEXT, fell))
        return outs_all

    def watch_shapes(self):
        r = getattr(self, '_watch_shapes', None)
        if r is None:
            r = self._watch_shapes = {self.shape_of(q) for q in self.literal_watch}
        return r

    def same_shape_negs(self, st, rep, others):
        """comparisons that excluded the representative `rep` of a shape exclude, on the same grounds, the other
        elements of that shape which the loop visits (their bodies are abstractly identical)"""
        add = {(lo, q) for (lo, r_) in st.neg if r_ == rep for q in others}
        if not add or add <= st.neg:
            return st
        s = st.copy()
        s.neg = st.neg | add
        return s

    def shape_of(self, p):
        if isinstance(p, str):
            r = self._shape_cache.get(p)
            if r is None:
                r = self._shape_cache[p] = tuple(self.A.sym_of_char(c) for c in p)
            return r
        return None


# --------------------------------------------------------------------------- registry / driver

def registry(repo):
    """Ordered list [(name, FuncDef)] built by the `@token(name)` decorators of tokens.py.
    The decorator's body is checked to have the registering shape."""
    mod = repo.modules['tokens']
    if 'tokenizers' not in mod.assigns:
        raise AnalysisError('tokens.tokenizers (rule registry) vanished')
    deco = None
    for fd in mod.functions.values():
        # def token(name): def wrap(f): tokenizers.append((name, f)); return f ; return wrap
        inner = [s for s in fd.node.body if isinstance(s, ast.FunctionDef)]
        if len(inner) == 1 and len(fd.params()) == 1:
            w = inner[0]
            appends = [c for c in ast.walk(w) if isinstance(c, ast.Call) and isinstance(c.func, ast.Attribute)
                       and c.func.attr == 'append' and isinstance(c.func.value, ast.Name)
                       and c.func.value.id == 'tokenizers']
            rets = [s for s in w.body if isinstance(s, ast.Return)]
            if len(appends) == 1 and len(w.args.args) == 1 and rets and isinstance(rets[-1].value, ast.Name) \
                    and rets[-1].value.id == w.args.args[0].arg:
                arg = appends[0].args[0]
                if isinstance(arg, ast.Tuple) and len(arg.elts) == 2 and isinstance(arg.elts[0], ast.Name) \
                        and arg.elts[0].id == fd.params()[0] and isinstance(arg.elts[1], ast.Name) \
                        and arg.elts[1].id == w.args.args[0].arg:
                    deco = fd
    if deco is None:
        raise AnalysisError('rule-registering decorator not recognised in tokens.py')
    reg = []
    for st in mod.tree.body:
        if isinstance(st, ast.FunctionDef):
            for d in st.decorator_list:
                if isinstance(d, ast.Call) and isinstance(d.func, ast.Name) and d.func.id == deco.name:
                    if len(d.args) != 1 or not isinstance(d.args[0], ast.Constant):
                        raise AnalysisError('rule name of %s is not a constant' % st.name)
                    reg.append((d.args[0].value, mod.functions[st.name]))
        elif isinstance(st, (ast.Expr, ast.Assign, ast.AugAssign)) and st is not None:
            for c in ast.walk(st):
                if isinstance(c, ast.Attribute) and isinstance(c.value, ast.Name) and c.value.id == 'tokenizers' \
                        and c.attr in ('append', 'insert', 'extend', 'remove', 'pop', 'sort', 'reverse', 'clear'):
                    raise AnalysisError('registry mutated at module level outside the decorator (line %d)' % st.lineno)
    if not reg:
        raise AnalysisError('no registered tokenizer rules')
    return reg, deco


class Table:
    """Result of exploring every entry window."""

    def __init__(self):
        self.records = []       # dicts
        self.findings = {}
        self.finding_windows = {}
        self.windows = 0
        self.states = 0
        self.deref_sites = set()
        self.guard_sites = set()


def explore(repo, thorough=False):
    A = Alphabet(repo)
    reg, deco = registry(repo)
    nt = repo.need_func('tokens.next_token')
    body = strip_doc(nt.node.body)
    loops = [s for s in body if isinstance(s, ast.While)]
    if len(loops) != 1 or body.index(loops[0]) != len(body) - 1 and not all(
            isinstance(s, ast.Return) and s.value is None or isinstance(s, ast.Return) and isinstance(s.value, ast.Constant) and s.value.value is None
            for s in body[body.index(loops[0]) + 1:]):
        raise AnalysisError('driver next_token: expected one top-level `while` round loop')
    driver_loop = loops[0]
    params = nt.params()
    if len(params) < 1:
        raise AnalysisError('driver next_token has no cursor parameter')

    table = Table()
    it = TokInterp(repo, A, reg)
    it.literal_watch = tuple(SIZING_LITERALS)
    rounds = []

    def on_backedge(loop, st):
        if loop is driver_loop and len(st.frames) == 1:
            rounds.append(('backedge', st))
            # rounds are independent (each is explored from its own window) unless the driver carries state from one
            # round to the next: a partly consumed one-shot iterator makes the next round a different one
            if any(v[0] == 'pygen' and v[2] > 0 for v in st.top.vars.values()):
                return [st]
            return []
        return [st]
    it.on_backedge = on_backedge

    esc = A.CC.members.get('Escape')
    if esc is None:
        raise AnalysisError('CC.Escape vanished')
    escs = A.syms_of_ccs({int(esc)})
    m1_classes = [('Escape', escs), ('notEscape', A.ALL - escs), ('BOF', A.ALL | {BOF})]
    if thorough:
        m1_classes = [(s, frozenset({s})) for s in A.syms] + [('BOF', A.ALL | {BOF})]
    prevs = [('None', ('const', None)), ('token', ('ptok',))]
    for m1name, m1 in m1_classes:
        for c0 in A.syms:
            for c1 in ((A.syms + [EOF]) if thorough else ['ANY']):
                m2 = frozenset({BOF}) if m1 == frozenset({BOF}) else A.ALL | {BOF}
                W = [m2, frozenset(m1), frozenset({c0}), frozenset({c1}) if c1 != 'ANY' else A.TOP] + [A.TOP] * MAXK
                if c1 == EOF:
                    W = W[:LM + 2] + [frozenset({EOF})] * MAXK
                for pname, prev in prevs:
                    table.windows += 1
                    it.entry_key = (m1name, c0, c1, pname)
                    del rounds[:]
                    st = St(tuple(W), 0, ())
                    bound = {params[0]: ('cursor',)}
                    for p, d in nt.defaults().items():
                        bound[p] = it.lift(it.fold_try_module(d, nt.module))
                    if len(params) > 1:
                        bound[params[1]] = prev
                    results = it.run_frame(nt, bound, st, rule=None)
                    for rv, s1 in results:
                        rec = {'window': it.entry_key, 'log': s1.log, 'imprecise': s1.imprecise, 'cur': s1.cur}
                        if isinstance(rv, Raised):
                            rec['result'] = 'raise'
                            rec['exc'] = rv.exc
                        elif rv[0] == 'tok':
                            rec['result'] = 'token'
                            rec['tok'] = rv[1]
                        elif rv[0] == 'const' and rv[1] is None:
                            rec['result'] = 'none'      # driver returned None with input left
                        else:
                            raise AnalysisError('driver returns %s' % rv[0])
                        table.records.append(rec)
                    for kind, s1 in rounds:
                        table.records.append({'window': it.entry_key, 'log': s1.log, 'imprecise': s1.imprecise,
                                              'cur': s1.cur, 'result': 'round-end'})
    table.findings = it.findings
    table.finding_windows = it.finding_windows
    table.states = it.states
    table.truncated = it.truncated
    table.deref_sites = it.deref_sites
    table.guard_sites = it.guard_sites
    table.alphabet = A
    table.registry = reg
    table.decorator = deco
    table.driver = nt
    return table
