"""Isolation / determinism rules (C17): shared-state writes (R17.a), mutable defaults (R17.b),
order-sensitive iteration over unordered collections (R17.c), fresh root (R17.d)."""
import ast

from .model import AnalysisError, Unfoldable, Folder, ClassRef, FuncRef, norm
from .core import RuleResult, Finding
from . import abstok
from . import rules_tok

MUTATORS = {'append', 'extend', 'insert', 'remove', 'pop', 'clear', 'sort', 'reverse', 'update', 'add', 'discard',
            'setdefault', 'popitem', '__setitem__', '__delitem__'}


# calls that change state shared by the whole interpreter (a later parse runs under the changed setting)
GLOBAL_SETTERS = {'sys.setrecursionlimit', 'sys.setswitchinterval', 'sys.settrace', 'sys.setprofile', 'random.seed',
                  'locale.setlocale', 'warnings.simplefilter', 'warnings.filterwarnings', 'gc.disable', 'gc.enable',
                  'gc.set_threshold', 'os.chdir', 'os.putenv', 'os.environ.update', 'os.environ.setdefault',
                  'logging.basicConfig', 'logging.disable', 'sys.path.append', 'sys.path.insert',
                  'setrecursionlimit'}


def _all_funcs_with_nested(repo):
    """(FuncDef-like owner, ast.FunctionDef node, qualified name, module) including nested defs"""
    out = []
    for fd in repo.all_funcs():
        out.append((fd, fd.node, fd.qual, fd.module))
    return out


def _module_level_names(repo, module):
    names = set(module.assigns) | set(module.classes) | set(module.functions)
    for n in module.imports:
        r = repo.resolve(module, n)
        if r and r[0] in ('const', 'class'):
            names.add(n)
    for sm in module.star_imports:
        mn = repo.modname(sm)
        if mn:
            m2 = repo.modules[mn]
            exported = m2.all_names if m2.all_names is not None else list(m2.assigns) + list(m2.classes)
            names |= set(exported)
    return names


def _locals_of(fnode):
    loc = {a.arg for a in fnode.args.args + fnode.args.kwonlyargs + fnode.args.posonlyargs}
    if fnode.args.vararg:
        loc.add(fnode.args.vararg.arg)
    if fnode.args.kwarg:
        loc.add(fnode.args.kwarg.arg)
    for n in ast.walk(fnode):
        if isinstance(n, ast.Name) and isinstance(n.ctx, ast.Store):
            loc.add(n.id)
    return loc


def r17_a(ctx):
    repo = ctx.repo
    rr = RuleResult('R17.a', 'no function mutates a module-level object, a class attribute or the shared empty token '
                    '(writes performed only at import time by the rule-registering decorator are recognised)', floor=40)
    try:
        reg, deco = abstok.registry(repo)
    except AnalysisError:
        deco = None
    # the registrar may only be used in decorator position at module level
    deco_calls_in_functions = []
    if deco is not None:
        for fd, node, qual, module in _all_funcs_with_nested(repo):
            in_decorators = {id(x) for d in node.decorator_list for x in ast.walk(d)}
            for n in ast.walk(node):
                if isinstance(n, ast.Call) and isinstance(n.func, ast.Name) and n.func.id == deco.name and module is deco.module \
                        and node is not deco.node and id(n) not in in_decorators:
                    deco_calls_in_functions.append((fd, n))
    for fd, node, qual, module in _all_funcs_with_nested(repo):
        glob = _module_level_names(repo, module)
        loc = _locals_of(node)
        declared_global = {x for n in ast.walk(node) if isinstance(n, ast.Global) for x in n.names}
        writes = []
        for n in ast.walk(node):
            # nested function defs have their own locals
            tgt = None
            if isinstance(n, ast.Call) and isinstance(n.func, ast.Attribute) and n.func.attr in MUTATORS:
                base = n.func.value
                root = base
                while isinstance(root, (ast.Attribute, ast.Subscript)):
                    root = root.value
                if isinstance(root, ast.Name) and root.id in glob and root.id not in _scope_locals(n, node):
                    # GLOBAL.append(..) / GLOBAL.attr.append(..) ; class-level: Class.attr.mutate()
                    r = repo.resolve(module, root.id)
                    if r and r[0] in ('const', 'class'):
                        tgt = (n, 'module-level object %s is mutated by %s' % (root.id, norm(n)[:60]))
            elif isinstance(n, (ast.Assign, ast.AugAssign, ast.Delete)):
                targets = n.targets if isinstance(n, (ast.Assign, ast.Delete)) else [n.target]
                for t in targets:
                    if isinstance(t, ast.Name) and t.id in declared_global:
                        tgt = (n, 'module-level name %s is rebound' % t.id)
                    if isinstance(t, (ast.Attribute, ast.Subscript)):
                        root = t
                        while isinstance(root, (ast.Attribute, ast.Subscript)):
                            root = root.value
                        if isinstance(root, ast.Name) and root.id in glob and root.id not in _scope_locals(n, node):
                            r = repo.resolve(module, root.id)
                            if r and r[0] in ('const', 'class'):
                                tgt = (n, 'module-level object or class attribute %s is written' % norm(t)[:50])
                        # cls.attr = / type(self).attr = / self.__class__.attr =
                        if isinstance(t, ast.Attribute):
                            b = t.value
                            if (isinstance(b, ast.Name) and b.id == 'cls') or \
                                    (isinstance(b, ast.Call) and isinstance(b.func, ast.Name) and b.func.id == 'type') or \
                                    (isinstance(b, ast.Attribute) and b.attr == '__class__'):
                                tgt = (n, 'a class attribute is written through %s' % norm(b))
            if tgt is not None:
                writes.append(tgt)
            # process-global interpreter state
            if isinstance(n, ast.Call) and norm(n.func) in GLOBAL_SETTERS:
                writes.append((n, 'the interpreter-wide setting %s is changed' % norm(n.func)))
            if isinstance(n, (ast.Assign, ast.AugAssign, ast.Delete)):
                for t in (n.targets if isinstance(n, (ast.Assign, ast.Delete)) else [n.target]):
                    if isinstance(t, ast.Subscript) and norm(t.value) in ('os.environ', 'sys.modules', 'sys.path'):
                        writes.append((n, 'the process-wide table %s is changed' % norm(t.value)))
        # in-place changes through a local alias of a module-level mutable:  x = G ; x += .. / x |= .. / x.append(..)
        aliases = {}
        for n in ast.walk(node):
            if isinstance(n, ast.Assign) and len(n.targets) == 1 and isinstance(n.targets[0], ast.Name):
                for g in _may_be_global(n.value):
                    if g in glob and g not in loc:
                        r = repo.resolve(module, g)
                        if r and r[0] == 'const' and any(_mutable_init(v) for v in r[1].assigns.get(r[2], [])):
                            aliases.setdefault(n.targets[0].id, g)
        if aliases:
            for n in ast.walk(node):
                a = None
                if isinstance(n, ast.AugAssign) and isinstance(n.target, ast.Name) and n.target.id in aliases:
                    a = n.target.id
                elif isinstance(n, ast.Call) and isinstance(n.func, ast.Attribute) and n.func.attr in MUTATORS \
                        and isinstance(n.func.value, ast.Name) and n.func.value.id in aliases:
                    a = n.func.value.id
                elif isinstance(n, (ast.Assign, ast.Delete)) and any(
                        isinstance(t, ast.Subscript) and isinstance(t.value, ast.Name) and t.value.id in aliases for t in n.targets):
                    a = [t.value.id for t in n.targets if isinstance(t, ast.Subscript) and isinstance(t.value, ast.Name)
                         and t.value.id in aliases][0]
                if a is not None:
                    writes.append((n, 'the local %s may be the module-level mutable %s, which %s changes in place'
                                   % (a, aliases[a], norm(n)[:50])))
        exempt = deco is not None and _is_within(node, deco.node) and not deco_calls_in_functions
        rr.ob(not writes or exempt, {'function': '%s.%s' % (module.name, qual), 'shared_writes': len(writes),
                                     'import_time_registrar': bool(writes) and exempt})
        if writes and not exempt:
            for n, msg in writes:
                rr.fail(Finding('R17.a', module.name, qual, n, '%s: state shared between parses is modified at run '
                                'time, so an earlier parse or edit can influence a later one' % msg, line=n.lineno))
    # mutable class-level attributes mutated through instances
    for c in repo.all_classes():
        for a, v in c.attrs.items():
            if isinstance(v, (ast.List, ast.Dict, ast.Set)) or (isinstance(v, ast.Call) and norm(v.func) in ('list', 'dict', 'set')):
                assigned_in_init = any(isinstance(n, ast.Assign) and any(norm(t) == 'self.%s' % a for t in n.targets)
                                       for fds in c.methods.values() for fd in fds for n in ast.walk(fd.node) if fd.name == '__init__')
                mutated = [n for c2 in repo.subclasses(c) for fds in c2.methods.values() for fd in fds for n in ast.walk(fd.node)
                           if isinstance(n, ast.Call) and isinstance(n.func, ast.Attribute) and n.func.attr in MUTATORS
                           and norm(n.func.value) == 'self.%s' % a]
                ok = assigned_in_init or not mutated
                rr.ob(ok, {'class_level_mutable': '%s.%s' % (c.name, a)})
                if not ok:
                    rr.fail(Finding('R17.a', c.module.name, c.name, 'class attribute %s.%s' % (c.name, a),
                                    'the class-level mutable %s.%s is mutated through instances without a per-instance '
                                    'copy: all nodes share it' % (c.name, a), line=c.node.lineno))
    return rr


def _may_be_global(e):
    """names an expression may evaluate to without copying:  G | G if c else H | G or H"""
    if isinstance(e, ast.Name):
        return [e.id]
    if isinstance(e, ast.IfExp):
        return _may_be_global(e.body) + _may_be_global(e.orelse)
    if isinstance(e, ast.BoolOp):
        return [x for v in e.values for x in _may_be_global(v)]
    return []


def _mutable_init(v):
    if v is None:
        return False
    if isinstance(v, (ast.List, ast.Dict, ast.Set, ast.ListComp, ast.SetComp, ast.DictComp)):
        return True
    if isinstance(v, ast.Call) and norm(v.func).split('.')[-1] in ('list', 'dict', 'set', 'defaultdict', 'OrderedDict',
                                                                    'deque', 'Counter', 'bytearray'):
        return True
    return False


def _is_within(node, root):
    return any(x is node for x in ast.walk(root))


def _scope_locals(n, fnode):
    """names local to the innermost function enclosing n (within fnode)"""
    p = getattr(n, '_parent', None)
    inner = fnode
    while p is not None and p is not fnode:
        if isinstance(p, (ast.FunctionDef, ast.Lambda)):
            inner = p
            break
        p = getattr(p, '_parent', None)
    if isinstance(inner, ast.Lambda):
        return {a.arg for a in inner.args.args}
    return _locals_of(inner)


def r17_b(ctx):
    repo = ctx.repo
    rr = RuleResult('R17.b', 'a parameter with a mutable default is only read: never mutated, stored or returned',
                    floor=1)
    n_sites = 0
    for fd in repo.all_funcs():
        for p, d in fd.defaults().items():
            if not (isinstance(d, (ast.List, ast.Dict, ast.Set)) or (isinstance(d, ast.Call) and norm(d.func) in ('list', 'dict', 'set'))):
                continue
            n_sites += 1
            bad = []
            for n in ast.walk(fd.node):
                if isinstance(n, ast.Call) and isinstance(n.func, ast.Attribute) and n.func.attr in MUTATORS \
                        and isinstance(n.func.value, ast.Name) and n.func.value.id == p:
                    bad.append((n, 'mutated'))
                if isinstance(n, ast.Assign) and isinstance(n.value, ast.Name) and n.value.id == p \
                        and any(isinstance(t, ast.Attribute) for t in n.targets):
                    bad.append((n, 'stored'))
                if isinstance(n, ast.Return) and isinstance(n.value, ast.Name) and n.value.id == p:
                    bad.append((n, 'returned'))
                if isinstance(n, (ast.Assign, ast.AugAssign)) and any(
                        isinstance(t, ast.Subscript) and isinstance(t.value, ast.Name) and t.value.id == p
                        for t in (n.targets if isinstance(n, ast.Assign) else [n.target])):
                    bad.append((n, 'mutated'))
            rr.ob(not bad, {'function': fd.fq, 'parameter': p, 'default': norm(d)})
            for n, how in bad:
                rr.fail(Finding('R17.b', fd.module.name, fd.qual, n, 'the mutable default of parameter %s is %s: it is '
                                'shared by every call that omits the argument' % (p, how), line=n.lineno))
    if n_sites == 0:
        rr.ob(True, {'mutable_defaults': 0})
    return rr


def _prefix_related(elems):
    s = sorted(e for e in elems if isinstance(e, str))
    out = []
    for a, b in zip(s, s[1:]):
        if b.startswith(a) and a != b:
            out.append((a, b))
    return out


def r17_c(ctx):
    repo = ctx.repo
    rr = RuleResult('R17.c', 'no order-sensitive use of an unordered collection: every iteration over a set is '
                    'membership-like or order-insensitive, or its elements cannot compete for the same match', floor=1)
    sites = []
    for m in repo.modules.values():
        for n in ast.walk(m.tree):
            its = []
            if isinstance(n, ast.For):
                its.append((n.iter, n))
            elif isinstance(n, (ast.ListComp, ast.GeneratorExp, ast.SetComp, ast.DictComp)):
                for g in n.generators:
                    its.append((g.iter, n))
            for it, owner in its:
                try:
                    v = Folder(repo, m).ev(it)
                except Unfoldable:
                    # tuple(<set>) / list(<set>) conversions keep the arbitrary order
                    continue
                if isinstance(v, (set, frozenset)):
                    sites.append((m, it, owner, v))
    # conversions of a set into an ordered sequence whose order is then used
    for m, it, owner, v in sites:
        fdname = _enclosing(owner)
        if isinstance(owner, ast.SetComp):
            rr.ob(True, {'module': m.name, 'iteration': norm(it)[:60], 'use': 'builds a set (order-insensitive)'})
            continue
        if isinstance(owner, (ast.ListComp, ast.GeneratorExp, ast.DictComp)):
            p = getattr(owner, '_parent', None)
            ok = isinstance(p, ast.Call) and norm(p.func) in ('set', 'frozenset', 'any', 'all', 'sum', 'len', 'sorted', 'max', 'min')
            if not ok and isinstance(owner, ast.GeneratorExp) and isinstance(p, ast.Call) and norm(p.func) == 'next' \
                    and len(owner.generators) == 1 and isinstance(owner.generators[0].target, ast.Name):
                # next(<first element whose condition holds>): a first-match search -- fine when the condition is a
                # prefix comparison of len(element) characters and no element is a proper prefix of another
                tv = owner.generators[0].target.id
                pm = any(isinstance(x, ast.Compare) and isinstance(x.ops[0], (ast.Eq, ast.NotEq)) and (
                    (any(isinstance(y, ast.Name) and y.id == tv for y in ast.walk(x.comparators[0])) and 'len(%s)' % tv in norm(x.left))
                    or (any(isinstance(y, ast.Name) and y.id == tv for y in ast.walk(x.left)) and 'len(%s)' % tv in norm(x.comparators[0])))
                    for c_ in owner.generators[0].ifs for x in ast.walk(c_)) or any(
                    isinstance(x, ast.Call) and isinstance(x.func, ast.Attribute) and x.func.attr == 'startswith' and len(x.args) == 1
                    and isinstance(x.args[0], ast.Name) and x.args[0].id == tv for c_ in owner.generators[0].ifs for x in ast.walk(c_))
                rel = _prefix_related(v) if pm else None
                ok2 = pm and not rel
                rr.ob(ok2, {'module': m.name, 'function': fdname, 'iteration': norm(it)[:60], 'use': 'first match (next)',
                            'competing_elements': [list(x) for x in (rel or [])[:4]]})
                if not ok2:
                    rr.fail(Finding('R17.c', m.name, fdname, owner, 'a first-match search (next over a generator) iterates a '
                                    'set (%d elements) whose elements can compete: which one matches first depends on the '
                                    'hash seed' % len(v), line=owner.lineno))
                continue
            rr.ob(ok, {'module': m.name, 'iteration': norm(it)[:60], 'use': norm(p.func) if ok else 'ordered result'})
            if not ok:
                rr.fail(Finding('R17.c', m.name, fdname, owner, 'a sequence is built by iterating a set: its order '
                                'depends on the interpreter\'s hash seed', line=owner.lineno))
            continue
        # a for loop: order-dependent if its body can leave the loop or yield
        dep = any(isinstance(x, (ast.Return, ast.Break, ast.Yield, ast.YieldFrom)) for s in owner.body for x in ast.walk(s))
        stores = any(isinstance(x, ast.Call) and isinstance(x.func, ast.Attribute) and x.func.attr in ('append', 'insert', 'extend')
                     for s in owner.body for x in ast.walk(s))
        if not dep and not stores:
            rr.ob(True, {'module': m.name, 'iteration': norm(it)[:60], 'use': 'order-insensitive body'})
            continue
        # first-match loop: allowed only if no element is a proper prefix of another when the match is a
        # prefix comparison of len(element) characters
        tvar = owner.target.id if isinstance(owner.target, ast.Name) else None
        from .model import resolve_locals
        fnode = owner
        while fnode is not None and not isinstance(fnode, ast.FunctionDef):
            fnode = getattr(fnode, '_parent', None)

        def _res(e):
            return resolve_locals(fnode, e) if fnode is not None else e
        prefix_match = tvar is not None and any(
            isinstance(x, ast.Compare) and isinstance(x.ops[0], (ast.Eq, ast.NotEq)) and (
                (any(isinstance(y, ast.Name) and y.id == tvar for y in ast.walk(x.comparators[0])) and 'len(%s)' % tvar in norm(_res(x.left)))
                or (any(isinstance(y, ast.Name) and y.id == tvar for y in ast.walk(x.left)) and 'len(%s)' % tvar in norm(_res(x.comparators[0]))))
            for s in owner.body for x in ast.walk(s))
        if tvar is not None and not prefix_match:
            # <look-ahead>.startswith(element): a prefix comparison as well
            prefix_match = any(isinstance(x, ast.Call) and isinstance(x.func, ast.Attribute) and x.func.attr == 'startswith'
                               and len(x.args) == 1 and isinstance(x.args[0], ast.Name) and x.args[0].id == tvar
                               for s in owner.body for x in ast.walk(s))
        rel = _prefix_related(v) if prefix_match else None
        ok = prefix_match and not rel
        rr.ob(ok, {'module': m.name, 'function': fdname, 'iteration': norm(it)[:60], 'use': 'first match',
                   'competing_elements': [list(x) for x in (rel or [])[:4]]})
        if not ok:
            why = ('elements %s are prefixes of %s: which one matches first depends on the hash seed' % (
                [a for a, b in rel[:3]], [b for a, b in rel[:3]])) if rel else 'the first matching element depends on the iteration order'
            rr.fail(Finding('R17.c', m.name, fdname, 'for %s in %s' % (norm(owner.target), norm(it)),
                            'a first-match loop iterates a set (%d elements); %s, so the parse result is not a function '
                            'of the source alone' % (len(v), why), line=owner.lineno))
    if not sites:
        rr.ob(True, {'set_iterations': 0})
        rr.ob(True, {'note': 'no iteration over a constant set remains'})
    return rr


def _enclosing(node):
    p = getattr(node, '_parent', None)
    names = []
    while p is not None:
        if isinstance(p, (ast.FunctionDef, ast.ClassDef)):
            names.append(p.name)
        p = getattr(p, '_parent', None)
    return '.'.join(reversed(names)) or '<module>'


def r17_d(ctx):
    repo = ctx.repo
    rr = RuleResult('R17.d', 'every call of the public entry points builds a fresh root, fresh buffers and a fresh node',
                    floor=2)
    for fq in ('tex.read', '__init__.TexSoup'):
        fd = repo.need_func(fq)
        glob = _module_level_names(repo, fd.module)
        loc = _locals_of(fd.node)
        rets = [n for n in ast.walk(fd.node) if isinstance(n, ast.Return) and n.value is not None]
        if not rets:
            raise AnalysisError('%s returns nothing' % fq)
        from .model import resolve_locals
        for r in rets:
            rv = resolve_locals(fd.node, r.value)
            shared = [x.id for x in ast.walk(rv) if isinstance(x, ast.Name) and x.id in glob and x.id not in loc
                      and not (repo.resolve(fd.module, x.id) or ('',))[0] in ('func', 'class')]
            ctor = any(isinstance(x, ast.Call) for x in ast.walk(rv))
            ok = not shared and ctor
            rr.ob(ok, {'function': fq, 'returns': norm(r.value)[:70]})
            if not ok:
                rr.fail(Finding('R17.d', fd.module.name, fd.qual, r, 'the entry point returns %s: a module-level object is '
                                'shared between parses' % (shared or 'no freshly constructed object'), line=r.lineno))
    # non-string input is flattened to one string before anything else sees it: what reaches the categoriser is the
    # input itself only under isinstance(<input>, str), otherwise a ''.join(...) of it
    fd = repo.need_func('tex.read')
    src_p = fd.params()[0]

    def joins(e):
        return isinstance(e, ast.Call) and isinstance(e.func, ast.Attribute) and e.func.attr == 'join' \
            and isinstance(e.func.value, ast.Constant) and e.func.value.value == ''

    def is_str_test(t, p_):
        return norm(t) == 'isinstance(%s, str)' % p_

    def flat_expr(e, fnode, p_, depth=0):
        """e evaluates to one string whenever p_ is the raw input"""
        if joins(e):
            return True
        if isinstance(e, ast.IfExp):
            if is_str_test(e.test, p_):
                return norm(e.body) == p_ and flat_expr(e.orelse, fnode, p_, depth)
            if isinstance(e.test, ast.UnaryOp) and isinstance(e.test.op, ast.Not) and is_str_test(e.test.operand, p_):
                return norm(e.orelse) == p_ and flat_expr(e.body, fnode, p_, depth)
            return False
        if isinstance(e, ast.Name) and e.id == p_:
            # rebound under `if not isinstance(p, str): p = ''.join(...)` before use
            for n in ast.walk(fnode):
                if isinstance(n, ast.If) and isinstance(n.test, ast.UnaryOp) and isinstance(n.test.op, ast.Not) \
                        and is_str_test(n.test.operand, p_) and any(
                            isinstance(s_, ast.Assign) and norm(s_.targets[0]) == p_ and joins(s_.value) for s_ in n.body):
                    return True
            return False
        if isinstance(e, ast.Call) and isinstance(e.func, ast.Name) and len(e.args) == 1 and not e.keywords \
                and isinstance(e.args[0], ast.Name) and e.args[0].id == p_ and depth < 2:
            r_ = repo.resolve(fd.module, e.func.id)
            if r_ and r_[0] == 'func' and len(r_[1].params()) == 1:
                h = r_[1]
                hp = h.params()[0]
                # every return of the helper: the parameter under isinstance(p, str), or a join
                okh = True
                n_ret = 0

                def walk(stmts, is_str):
                    nonlocal okh, n_ret
                    for s_ in stmts:
                        if isinstance(s_, ast.If):
                            if is_str_test(s_.test, hp):
                                walk(s_.body, True)
                                walk(s_.orelse, False)
                                if s_.body and isinstance(s_.body[-1], ast.Return):
                                    is_str = False if is_str is None else is_str
                            elif isinstance(s_.test, ast.UnaryOp) and isinstance(s_.test.op, ast.Not) and is_str_test(s_.test.operand, hp):
                                walk(s_.body, False)
                                walk(s_.orelse, True)
                                if s_.body and isinstance(s_.body[-1], ast.Return):
                                    is_str = True
                            else:
                                walk(s_.body, is_str)
                                walk(s_.orelse, is_str)
                        elif isinstance(s_, ast.Return):
                            n_ret += 1
                            v_ = s_.value
                            if v_ is None:
                                okh = False
                            elif isinstance(v_, ast.Name) and v_.id == hp:
                                if is_str is not True:
                                    okh = False
                            elif not flat_expr(v_, h.node, hp, depth + 1):
                                okh = False
                            return
                walk(strip_doc_(h.node.body), None)
                return okh and n_ret > 0
        return False
    # ... and the public entry point hands its source to the reader as it received it: anything done to the
    # pieces of a chunked input before they are joined makes chunk boundaries visible
    ep = repo.need_func('__init__.TexSoup')
    ep_p = ep.params()[0]
    rcalls = [n for n in ast.walk(ep.node) if isinstance(n, ast.Call) and isinstance(n.func, ast.Name) and n.func.id == 'read']
    if not rcalls:
        raise AnalysisError('TexSoup(): the call of read vanished')
    rebinds = [n for n in ast.walk(ep.node) if isinstance(n, ast.Name) and n.id == ep_p and isinstance(n.ctx, ast.Store)]
    for c in rcalls:
        a0 = c.args[0] if c.args else None
        ok = isinstance(a0, ast.Name) and a0.id == ep_p and not rebinds
        rr.ob(ok, {'entry_point_forwards_source_unchanged': norm(a0) if a0 is not None else None})
        if not ok:
            site = rebinds[0]._parent if rebinds and hasattr(rebinds[0], '_parent') else c
            rr.fail(Finding('R17.d', '__init__', ep.qual, site, 'TexSoup() rewrites its source (%s) before the reader has '
                            'joined a chunked input into one string: the rewriting sees each chunk separately, so the result '
                            'depends on where the input was split' % norm(site)[:60], line=getattr(site, 'lineno', 0)))
    cat_calls = [n for n in ast.walk(fd.node) if isinstance(n, ast.Call) and isinstance(n.func, ast.Name) and n.func.id == 'categorize']
    if not cat_calls:
        raise AnalysisError('tex.read: the call of categorize vanished')
    for c in cat_calls:
        arg = resolve_locals(fd.node, c.args[0]) if c.args else None
        ok = arg is not None and flat_expr(arg, fd.node, src_p)
        rr.ob(ok, {'categorize_argument': norm(arg)[:70] if arg is not None else None})
        if not ok:
            rr.fail(Finding('R17.d', 'tex', fd.qual, c if arg is not None else 'no flattening of non-string input',
                            'non-string input (chunks, lines, files) is not joined into one string before categorising: the '
                            'result would depend on the chunking', line=fd.node.lineno))
    return rr


def strip_doc_(body):
    return [s for s in body if not (isinstance(s, ast.Expr) and isinstance(s.value, ast.Constant) and isinstance(s.value.value, str))]


def r17_f(ctx):
    """no function lets a module-level mutable object escape into a result (returned, stored, passed to a
    constructor or appended)"""
    repo = ctx.repo
    rr = RuleResult('R17.f', 'no module-level mutable object (list/dict/set or class instance) is returned, stored in a '
                    'node or handed to a constructor by any function: every parse builds its own objects', floor=10)
    for m in repo.modules.values():
        mut = {}
        for name, vals in m.assigns.items():
            for v in vals:
                is_inst = isinstance(v, ast.Call) and isinstance(v.func, ast.Name) and (
                    (repo.resolve(m, v.func.id) or ('',))[0] == 'class' or v.func.id in ('list', 'dict', 'set', 'bytearray'))
                # enums / named tuples built by helper functions are immutable values
                if isinstance(v, (ast.List, ast.Dict, ast.Set, ast.ListComp, ast.DictComp, ast.SetComp)) or is_inst:
                    mut[name] = v
        # names imported from other repo modules that are mutable there
        for other in repo.modules.values():
            if other is m:
                continue
        for fd in list(m.functions.values()) + [f for c in m.classes.values() for fs in c.methods.values() for f in fs]:
            loc = _locals_of(fd.node)
            rr.ob(True, {'function_examined': fd.fq})
            for n in ast.walk(fd.node):
                cands = []
                if isinstance(n, ast.Return) and n.value is not None:
                    cands = [(x, 'returned') for x in _value_names(n.value)]
                elif isinstance(n, ast.Assign) and any(isinstance(t, (ast.Attribute, ast.Subscript)) for t in n.targets):
                    cands = [(x, 'stored') for x in _value_names(n.value)]
                elif isinstance(n, ast.Call) and isinstance(n.func, ast.Attribute) and n.func.attr in ('append', 'extend', 'insert', 'add'):
                    cands = [(x, 'stored') for a in n.args for x in _value_names(a)]
                elif isinstance(n, ast.Call) and isinstance(n.func, ast.Name) and (repo.resolve(m, n.func.id) or ('',))[0] == 'class':
                    cands = [(x, 'given to a constructor') for a in list(n.args) + [k.value for k in n.keywords] for x in _value_names(a)]
                for x, how in cands:
                    if x.id in loc:
                        continue
                    r = repo.resolve(m, x.id)
                    if not r or r[0] != 'const':
                        continue
                    m2, nm = r[1], r[2]
                    v = m2.assigns.get(nm, [None])[-1]
                    is_mut = isinstance(v, (ast.List, ast.Dict, ast.Set, ast.ListComp, ast.DictComp, ast.SetComp)) or (
                        isinstance(v, ast.Call) and isinstance(v.func, ast.Name) and (
                            (repo.resolve(m2, v.func.id) or ('',))[0] == 'class' or v.func.id in ('list', 'dict', 'set')))
                    rr.ob(not is_mut, {'function': fd.fq, 'name': x.id, 'use': how, 'module_level_mutable': is_mut})
                    if is_mut:
                        rr.fail(Finding('R17.f', m.name, fd.qual, n, 'the module-level mutable object %s is %s: every parse '
                                        '(and every tree built from it) shares that one object, so an edit of one tree '
                                        'shows up in the others' % (x.id, how), line=n.lineno))
    if rr.instances == 0:
        rr.ob(True, {'note': 'no module-level name escapes from any function'})
    return rr


def _value_names(e):
    """names that ARE (part of) the value of an expression: through conditional expressions, boolean or,
    tuples/lists -- not names merely used inside calls, subscripts or comparisons"""
    if isinstance(e, ast.Name):
        return [e]
    if isinstance(e, ast.IfExp):
        return _value_names(e.body) + _value_names(e.orelse)
    if isinstance(e, ast.BoolOp):
        out = []
        for v in e.values:
            out += _value_names(v)
        return out
    if isinstance(e, (ast.Tuple, ast.List)):
        out = []
        for v in e.elts:
            out += _value_names(v.value if isinstance(v, ast.Starred) else v)
        return out
    return []


def _immutable_result(e):
    if e is None or isinstance(e, (ast.Constant, ast.JoinedStr, ast.Compare)):
        return True
    if isinstance(e, ast.Tuple):
        return all(_immutable_result(x) for x in e.elts)
    if isinstance(e, ast.BoolOp):
        return all(_immutable_result(x) for x in e.values)
    if isinstance(e, ast.UnaryOp):
        return _immutable_result(e.operand)
    if isinstance(e, ast.IfExp):
        return _immutable_result(e.body) and _immutable_result(e.orelse)
    if isinstance(e, ast.BinOp) and isinstance(e.op, ast.Mod) and isinstance(e.left, ast.Constant) and isinstance(e.left.value, str):
        return True
    if isinstance(e, ast.Call) and isinstance(e.func, ast.Name) and e.func.id in (
            'str', 'int', 'len', 'bool', 'float', 'repr', 'frozenset', 'isinstance', 'hash', 'ord', 'chr'):
        return True
    if isinstance(e, ast.Call) and isinstance(e.func, ast.Attribute) and isinstance(e.func.value, ast.Constant) \
            and isinstance(e.func.value.value, str):
        return True         # 'sep'.join(..), '..'.format(..)
    return False


MEMO_WORDS = ('lru_cache', 'cache', 'memo')


def r17_g(ctx):
    """no memoised function hands out mutable objects"""
    repo = ctx.repo
    rr = RuleResult('R17.g', 'no function whose results are cached by a memoising decorator (functools.lru_cache / cache '
                    '/ a memoize helper) returns anything but an immutable value: a cached node, group, token or list '
                    'would be shared by every caller, across commands and across parses', floor=40)
    for fd in repo.all_funcs():
        memo = [d for d in fd.decorators if any(w in d.split('(')[0].split('.')[-1].lower() for w in MEMO_WORDS)
                and 'cached_property' not in d]
        rets = [n for n in ast.walk(fd.node) if isinstance(n, ast.Return)]
        gen = any(isinstance(n, (ast.Yield, ast.YieldFrom)) for n in ast.walk(fd.node))
        mutable = [r for r in rets if not _immutable_result(r.value)]
        ok = not memo or (not mutable and not gen)
        rr.ob(ok, {'function': fd.fq, 'memoising_decorators': memo})
        if not ok:
            what = norm(mutable[0].value)[:50] if mutable else 'a generator'
            rr.fail(Finding('R17.g', fd.module.name, fd.qual, 'decorator %s on %s' % (memo[0], fd.qual),
                            '%s is memoised by %s and returns %s: equal arguments yield the very same object, so nodes '
                            'built from it share mutable state -- an edit of one changes the others, and a later parse '
                            'sees the edits of an earlier one' % (fd.qual, memo[0], what), line=fd.node.lineno))
    return rr
