"""Runner-side data model: rule results, findings, known-findings matching, evidence."""
import ast
import json
import os
import time

from .model import Repo, AnalysisError, norm

VERIF = os.path.dirname(os.path.dirname(os.path.abspath(__file__)))
KNOWN_FILE = os.path.join(VERIF, 'known_findings.json')


class Finding:
    """A construct of the current tree that breaks a rule."""

    def __init__(self, rule, module, function, construct, message, line=0, trace=None, witness=None):
        self.rule, self.module, self.function = rule, module, function
        self.construct = construct if isinstance(construct, str) else norm(construct)
        self.message, self.line, self.trace, self.witness = message, line, trace, witness

    def key(self, prop):
        return (prop, self.rule, self.module, self.function, self.construct)

    def to_json(self, prop):
        return {'property': prop, 'rule': self.rule, 'module': self.module, 'function': self.function,
                'construct': self.construct, 'line': self.line, 'message': self.message,
                'trace': self.trace, 'witness': self.witness}

    def where(self):
        return 'TexSoup/%s.py:%s:%s' % (self.module, self.function, self.line)


class RuleResult:
    def __init__(self, rid, title, floor=1):
        self.id, self.title, self.floor = rid, title, floor
        self.instances = 0          # sites / obligations the rule was evaluated on
        self.discharged = 0
        self.findings = []
        self.samples = []
        self.notes = []
        self.witnesses = []         # discharging constructs (used for positive controls)
        self.keys = set()           # distinct obligation keys

    def ob(self, ok, sample=None):
        """record one obligation"""
        self.instances += 1
        if ok:
            self.discharged += 1
        try:
            self.keys.add(json.dumps(sample, sort_keys=True, default=str) if sample is not None else '#%d' % self.instances)
        except Exception:       # noqa
            self.keys.add('#%d' % self.instances)
        if sample is not None and len(self.samples) < 6:
            self.samples.append(sample)
        return ok

    def fail(self, finding):
        # one finding per distinct construct
        for f in self.findings:
            if (f.module, f.function, f.construct) == (finding.module, finding.function, finding.construct):
                return
        self.findings.append(finding)

    def to_json(self):
        return {'id': self.id, 'title': self.title, 'instances': self.instances, 'floor': self.floor,
                'discharged': self.discharged, 'findings': len(self.findings), 'notes': self.notes[:8]}


class Ctx:
    """One analysis run over one source tree."""

    def __init__(self, repo=None, tier='quick', seed=0):
        self.repo = repo or Repo()
        self.tier, self.seed = tier, seed
        self.cache = {}
        self.stats = {}

    def memo(self, key, fn):
        if key not in self.cache:
            self.cache[key] = fn()
        return self.cache[key]


def load_known():
    if not os.path.exists(KNOWN_FILE):
        return []
    with open(KNOWN_FILE) as fh:
        return json.load(fh).get('findings', [])


def match_known(prop, finding, known):
    for k in known:
        if k.get('status') != 'open':
            continue
        if (k.get('property'), k.get('rule'), k.get('module'), k.get('function'), k.get('construct')) == \
                finding.key(prop):
            return k
    return None
